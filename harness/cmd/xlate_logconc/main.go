// xlate_logconc — reads package log of the current tree (go/parser, go/ast only) and
//
//  1. (-gen FILE) symbolically executes WithFields, SetLevel and ChildLogger and writes, per
//     function, the control-flow graph of its atomic operations on the context's shared holder
//     as a term of Base/LogConcCfg.v:
//
//     GLoad n | GRead n | GStore f n | GCas f succ fail      (target >= #nodes: the function returns)
//
//     Unexported helper functions / methods and closures are inlined (the derivation handed to a
//     retry helper as a func literal, say), locals are abstracted to what matters: "the pointer
//     loaded last", "f applied to it" (f = logger.With(fields...) -> FWith,
//     CustomLevelLogger(logger, level) -> FLevel, also through pure one-line helpers), known
//     booleans (the result of a CompareAndSwap, flags).  Loop forms are NOT normalised here: the
//     graph is what the code does, and Coq decides (prog_equiv, proved sound in
//     Base/LogConcCfgProofs.v) whether it is bisimilar to the hand-written program of the
//     theorems.  Anything the executor does not understand on the way (mutexes, channels,
//     data-dependent branches around atomic operations, a new value that is not derived from the
//     pointer being compared ...) is written as a term that does not type-check, naming the
//     reason: the tie is then broken.
//
//  2. (-instrument) rewrites the package in place so that a scheduler hook runs before every
//     atomic operation (Load/Store/CompareAndSwap/Swap) in the functions reachable from the three
//     entry points - except the operations the executor has seen ONLY on a holder that was
//     freshly allocated by the call itself (thread-local) and the function that looks the holder
//     up in the context:
//     h.Load() -> verifCall0(h.Load) (works for pointers and for value-typed atomic fields such
//     as lh.level of type atomic.Int32 alike), h.Store(x) -> h.Store(verifBefore(x)),
//     h.CompareAndSwap(a, b) -> h.CompareAndSwap(a, verifBefore(b)).
//     Mutexes (outside the instruction set) are made schedulable: mu.Lock() -> verifLock(mu.TryLock)
//     (a yield, then a yield-spin on TryLock), mu.Unlock() -> verifUnlock(mu.Unlock).
package main

import (
	"bytes"
	"flag"
	"fmt"
	"go/ast"
	"go/format"
	"go/token"
	"os"
	"path/filepath"
	"sort"
	"strings"

	"gtverif/internal/srcset"
)

var atomicArity = map[string]int{"Load": 0, "Store": 1, "CompareAndSwap": 2, "Swap": 1, "Add": 1}
var lockNames = map[string]bool{"Lock": true, "Unlock": true, "RLock": true, "RUnlock": true}
var builtins = map[string]bool{"len": true, "cap": true, "append": true, "make": true, "new": true, "copy": true,
	"delete": true, "panic": true, "print": true, "println": true, "min": true, "max": true, "clear": true,
	"string": true, "int": true, "int64": true, "uint64": true, "bool": true, "any": true, "recover": true}

// ---------- abstract values ----------
type kind int

const (
	kUnk     kind = iota
	kHolder       // the holder shared through the context
	kFresh        // a holder allocated by this very call
	kLatest       // the pointer loaded by the most recent Load
	kDerived      // f(latest), computed since the most recent Load
	kStale        // a pointer loaded earlier, or something derived from one
	kBool         // a known boolean
	kFields       // the variadic fields parameter
	kLevel        // the level parameter
	kCtx          // the context parameter
	kClosure      // a function literal
	kFound        // "the context carries a holder" (b: true) or its negation (b: false)
)

type aval struct {
	k   kind
	tag string // kDerived: FWith | FLevel | a marker
	b   bool
	lit *ast.FuncLit
	fr  *frame
}

func (v aval) String() string {
	switch v.k {
	case kHolder:
		return "H"
	case kFresh:
		return "N"
	case kLatest:
		return "L"
	case kDerived:
		return "D" + v.tag
	case kStale:
		return "S"
	case kBool:
		return fmt.Sprintf("B%v", v.b)
	case kFields:
		return "F"
	case kLevel:
		return "V"
	case kCtx:
		return "C"
	case kClosure:
		return fmt.Sprintf("K%p", v.lit)
	case kFound:
		return fmt.Sprintf("O%v", v.b)
	}
	return "?"
}

type frame struct {
	id     string
	parent *frame // lexically enclosing frame (closures)
}

type env map[string]aval

func (e env) clone() env {
	c := make(env, len(e))
	for k, v := range e {
		c[k] = v
	}
	return c
}

func (e env) digest() string {
	keys := make([]string, 0, len(e))
	for k, v := range e {
		if v.k != kUnk {
			keys = append(keys, k)
		}
	}
	sort.Strings(keys)
	var b strings.Builder
	for _, k := range keys {
		b.WriteString(k + "=" + e[k].String() + ";")
	}
	return b.String()
}

func lookup(e env, fr *frame, name string) (aval, bool) {
	for f := fr; f != nil; f = f.parent {
		if v, ok := e[f.id+"."+name]; ok {
			return v, true
		}
	}
	return aval{}, false
}

func assign(e env, fr *frame, name string, v aval, define bool) {
	if name == "_" {
		return
	}
	if !define {
		for f := fr; f != nil; f = f.parent {
			if _, ok := e[f.id+"."+name]; ok {
				e[f.id+"."+name] = v
				return
			}
		}
	}
	e[fr.id+"."+name] = v
}

// ---------- the package ----------
type pkgInfo struct {
	fset     *token.FileSet
	files    map[string]*ast.File
	funcs    map[string]*ast.FuncDecl // package-level functions
	methods  map[string]*ast.FuncDecl // methods by name (dropped when two types share the name)
	holderT  map[string]bool          // struct types holding an atomic.Pointer / atomic.Value
	impure   map[*ast.FuncDecl]bool   // functions that (transitively) perform atomic operations / locking
	source   map[*ast.FuncDecl]bool   // functions that look the shared holder up in a context
	excluded []string                 // files of the directory rejected by the build context
	inits    []*ast.FuncDecl
	dupFuncs []string
	sp       *srcset.Pkg
}

// structural: reasons why the package is not what the translation assumes, whatever the three
// entry points look like (checked once, reported in every graph).
func (p *pkgInfo) structural() []string {
	var out []string
	// the holder's atomic operations must be the promoted methods of sync/atomic's types
	for t := range p.holderT {
		for _, m := range p.sp.MethodsOf(t) {
			if _, ok := atomicArity[m]; ok {
				out = append(out, "type "+t+" declares its own method "+m+" (shadows the promoted atomic operation)")
			}
		}
	}
	for path, f := range p.files {
		usesAtomic := false
		ast.Inspect(f, func(n ast.Node) bool {
			if sel, ok := n.(*ast.SelectorExpr); ok {
				if id, ok := sel.X.(*ast.Ident); ok && id.Name == "atomic" && (sel.Sel.Name == "Pointer" || sel.Sel.Name == "Value") {
					usesAtomic = true
				}
			}
			return true
		})
		if !usesAtomic {
			continue
		}
		ok := false
		for _, im := range f.Imports {
			if im.Path.Value == "\"sync/atomic\"" && (im.Name == nil || im.Name.Name == "atomic") {
				ok = true
			}
		}
		if !ok {
			out = append(out, filepath.Base(path)+": `atomic` is not the package sync/atomic")
		}
	}
	// the context key under which the holder travels must not be reassigned by anybody
	keys := map[string]bool{}
	for _, f := range p.files {
		ast.Inspect(f, func(n ast.Node) bool {
			ta, ok := n.(*ast.TypeAssertExpr)
			if !ok || ta.Type == nil || !p.isHolderPtr(ta.Type) {
				return true
			}
			if c, ok := ta.X.(*ast.CallExpr); ok && len(c.Args) == 1 {
				if id, ok := c.Args[0].(*ast.Ident); ok {
					keys[id.Name] = true
				}
			}
			return true
		})
	}
	for k := range keys {
		if w := p.sp.WritesTo(k); len(w) > 0 {
			out = append(out, "the context key "+k+" is written by "+strings.Join(w, ", "))
		}
	}
	sort.Strings(out)
	return out
}

func isAtomicType(t ast.Expr) bool {
	switch x := t.(type) {
	case *ast.IndexExpr:
		return isAtomicType(x.X)
	case *ast.SelectorExpr:
		if id, ok := x.X.(*ast.Ident); ok && id.Name == "atomic" {
			return x.Sel.Name == "Pointer" || x.Sel.Name == "Value"
		}
	}
	return false
}

func loadPkg(dir string) (*pkgInfo, error) {
	p := &pkgInfo{fset: token.NewFileSet(), files: map[string]*ast.File{}, funcs: map[string]*ast.FuncDecl{},
		methods: map[string]*ast.FuncDecl{}, holderT: map[string]bool{}, impure: map[*ast.FuncDecl]bool{},
		source: map[*ast.FuncDecl]bool{}}
	// the files the compiler would take: build constraints, Go version tags, tag "verif"
	sp, err := srcset.Load(dir, "verif")
	if err != nil {
		return nil, err
	}
	p.fset = sp.Fset
	p.excluded = sp.Excluded
	p.sp = sp
	dup := map[string]bool{}
	for i, n := range sp.Names {
		if strings.HasPrefix(n, "zz_verif") {
			continue
		}
		path := filepath.Join(dir, n)
		f := sp.Files[i]
		p.files[path] = f
		for _, d := range f.Decls {
			switch x := d.(type) {
			case *ast.FuncDecl:
				if x.Body == nil {
					continue
				}
				if x.Recv == nil {
					if x.Name.Name == "init" {
						p.inits = append(p.inits, x)
					} else if _, seen := p.funcs[x.Name.Name]; seen {
						p.dupFuncs = append(p.dupFuncs, x.Name.Name)
					}
					p.funcs[x.Name.Name] = x
				} else if _, seen := p.methods[x.Name.Name]; seen || dup[x.Name.Name] {
					delete(p.methods, x.Name.Name)
					dup[x.Name.Name] = true
				} else {
					p.methods[x.Name.Name] = x
				}
			case *ast.GenDecl:
				for _, sp := range x.Specs {
					ts, ok := sp.(*ast.TypeSpec)
					if !ok {
						continue
					}
					st, ok := ts.Type.(*ast.StructType)
					if !ok {
						continue
					}
					for _, fl := range st.Fields.List {
						if isAtomicType(fl.Type) {
							p.holderT[ts.Name.Name] = true
						}
					}
				}
			}
		}
	}
	// (no function is an opaque "source" of the holder any more: the lookup function is executed
	// like every other helper; the holder enters through `ctx.Value(key).(*holderType)`)
	// impure = performs an atomic operation or locks, directly or through a package function
	for changed := true; changed; {
		changed = false
		for _, fn := range p.allFuncs() {
			if p.impure[fn] || p.source[fn] {
				continue
			}
			if p.nodeImpure(fn.Body) {
				p.impure[fn] = true
				changed = true
			}
		}
	}
	return p, nil
}

func (p *pkgInfo) allFuncs() []*ast.FuncDecl {
	var out []*ast.FuncDecl
	for _, f := range p.funcs {
		out = append(out, f)
	}
	for _, f := range p.methods {
		out = append(out, f)
	}
	sort.Slice(out, func(i, j int) bool { return out[i].Pos() < out[j].Pos() })
	return out
}

func (p *pkgInfo) isHolderPtr(t ast.Expr) bool {
	st, ok := t.(*ast.StarExpr)
	if !ok {
		return false
	}
	id, ok := st.X.(*ast.Ident)
	return ok && p.holderT[id.Name]
}

func atomicCall(c *ast.CallExpr) (string, bool) {
	sel, ok := c.Fun.(*ast.SelectorExpr)
	if !ok {
		return "", false
	}
	if n, ok := atomicArity[sel.Sel.Name]; ok && n == len(c.Args) {
		return sel.Sel.Name, true
	}
	return "", false
}

func lockCall(c *ast.CallExpr) (string, bool) {
	sel, ok := c.Fun.(*ast.SelectorExpr)
	if ok && lockNames[sel.Sel.Name] && len(c.Args) == 0 {
		return sel.Sel.Name, true
	}
	return "", false
}

// callee resolves a call to a function / method of the package (nil: something else).
func (p *pkgInfo) callee(c *ast.CallExpr) *ast.FuncDecl {
	switch f := c.Fun.(type) {
	case *ast.Ident:
		return p.funcs[f.Name]
	case *ast.SelectorExpr:
		if _, isAtomic := atomicCall(c); isAtomic {
			return nil
		}
		if id, ok := f.X.(*ast.Ident); ok && pkgQualifier[id.Name] {
			return nil
		}
		return p.methods[f.Sel.Name]
	}
	return nil
}

// nodeImpure: the syntax tree contains an atomic operation, a lock operation, a call of an
// impure package function, or a call of a local function value (which may be a closure).
func (p *pkgInfo) nodeImpure(n ast.Node) bool {
	if n == nil {
		return false
	}
	found := false
	ast.Inspect(n, func(m ast.Node) bool {
		if found {
			return false
		}
		if ta, ok := m.(*ast.TypeAssertExpr); ok && ta.Type != nil && p.isHolderPtr(ta.Type) {
			found = true // the holder enters here: ctx.Value(key).(*holderType)
			return false
		}
		c, ok := m.(*ast.CallExpr)
		if !ok {
			return true
		}
		if _, ok := atomicCall(c); ok {
			found = true
		} else if _, ok := lockCall(c); ok {
			found = true
		} else if fn := p.callee(c); fn != nil {
			if p.impure[fn] || p.source[fn] {
				found = true
			}
		} else if id, ok := c.Fun.(*ast.Ident); ok && !builtins[id.Name] && p.funcs[id.Name] == nil && id.Obj != nil && id.Obj.Kind == ast.Var {
			found = true // a call through a local function value
		}
		return !found
	})
	return found
}

// ---------- symbolic execution ----------
type target int

const exitT target = -1

type node struct {
	kind       string // Load Store Cas
	tag        string
	succ, fail target
}

type ctl struct {
	next     func(env) target
	brk, cnt func(env) target
	ret      func(env, []aval) target
}

type xl struct {
	p       *pkgInfo
	root    string
	nodes   []node
	memo    map[string]int
	bad     []string
	steps   int
	depth   int
	fresh   map[*ast.CallExpr]bool // atomic call sites seen on a freshly allocated holder
	shared  map[*ast.CallExpr]bool // ... seen on the shared (or an unknown) holder
	stored  []aval                 // values stored into fresh holders
	nframes int
	off     int // > 0 while walking a path on which the context carries no holder
}

const stepLimit = 20000

func (x *xl) unsupported(why string) {
	if x.off > 0 {
		return // on a path where the context carries no holder: nothing is shared there
	}
	for _, b := range x.bad {
		if b == why {
			return
		}
	}
	x.bad = append(x.bad, why)
}

func (x *xl) tick() bool {
	x.steps++
	if x.steps > stepLimit {
		x.unsupported("analysis budget exceeded (a loop without atomic operations?)")
		return false
	}
	return true
}

func (x *xl) block(list []ast.Stmt, e env, fr *frame, c ctl) target {
	if len(list) == 0 {
		return c.next(e)
	}
	rest := c
	rest.next = func(e2 env) target { return x.block(list[1:], e2, fr, c) }
	return x.stmt(list[0], e, fr, rest)
}

// fork: a branch on a value the executor does not know.  Both ways must lead to the same next
// atomic operation (with the same abstract state), otherwise the sequence of atomic operations
// depends on data the model does not have.
// forkFound: a branch on "the context carries a holder".  Only when it does can the holder be
// shared with other goroutines: the graph is the one of that case.  The other way is walked too
// (what it does to the fresh default holder is thread-local), but contributes nothing.
func (x *xl) forkFound(e env, v aval, thenB, elseB func(env) target) target {
	refine := func(found bool) env {
		c := e.clone()
		for key, w := range c {
			switch {
			case w.k == kFound:
				c[key] = aval{k: kBool, b: w.b == found}
			case w.k == kHolder && !found:
				c[key] = aval{k: kFresh}
			}
		}
		return c
	}
	// v.b: the condition is "found"; !v.b: the condition is "not found"
	var on, offB func(env) target
	if v.b {
		on, offB = thenB, elseB
	} else {
		on, offB = elseB, thenB
	}
	x.off++
	offB(refine(false))
	x.off--
	return on(refine(true))
}

func (x *xl) fork(e env, a, b func(env) target, what string) target {
	t1 := a(e.clone())
	t2 := b(e.clone())
	if t1 != t2 {
		x.unsupported("data-dependent branch around atomic operations (" + what + ")")
	}
	return t1
}

func (x *xl) assignedVars(n ast.Node, e env, fr *frame) {
	ast.Inspect(n, func(m ast.Node) bool {
		switch s := m.(type) {
		case *ast.AssignStmt:
			for _, l := range s.Lhs {
				if id, ok := l.(*ast.Ident); ok {
					assign(e, fr, id.Name, aval{}, false)
				}
			}
		case *ast.IncDecStmt:
			if id, ok := s.X.(*ast.Ident); ok {
				assign(e, fr, id.Name, aval{}, false)
			}
		case *ast.RangeStmt:
			for _, l := range []ast.Expr{s.Key, s.Value} {
				if id, ok := l.(*ast.Ident); ok {
					assign(e, fr, id.Name, aval{}, false)
				}
			}
		case *ast.FuncLit:
			return false
		}
		return true
	})
}

func hasReturn(n ast.Node) bool {
	found := false
	ast.Inspect(n, func(m ast.Node) bool {
		switch m.(type) {
		case *ast.ReturnStmt:
			found = true
		case *ast.FuncLit:
			return false
		}
		return !found
	})
	return found
}

func (x *xl) stmt(s ast.Stmt, e env, fr *frame, c ctl) target {
	if !x.tick() {
		return exitT
	}
	switch st := s.(type) {
	case nil:
		return c.next(e)
	case *ast.EmptyStmt:
		return c.next(e)
	case *ast.ExprStmt:
		return x.expr(st.X, e, fr, func(_ []aval, e2 env) target { return c.next(e2) })
	case *ast.AssignStmt:
		return x.exprs(st.Rhs, e, fr, func(vals []aval, e2 env) target {
			x.bind(st.Lhs, vals, len(st.Rhs), st.Tok, e2, fr)
			return c.next(e2)
		})
	case *ast.DeclStmt:
		gd, ok := st.Decl.(*ast.GenDecl)
		if !ok {
			return c.next(e)
		}
		var lhs []ast.Expr
		var rhs []ast.Expr
		for _, sp := range gd.Specs {
			if vs, ok := sp.(*ast.ValueSpec); ok {
				for i, n := range vs.Names {
					lhs = append(lhs, n)
					if i < len(vs.Values) {
						rhs = append(rhs, vs.Values[i])
					} else {
						rhs = append(rhs, ast.NewIdent("nil"))
					}
				}
			}
		}
		return x.exprs(rhs, e, fr, func(vals []aval, e2 env) target {
			x.bind(lhs, vals, len(rhs), token.DEFINE, e2, fr)
			return c.next(e2)
		})
	case *ast.IncDecStmt:
		if id, ok := st.X.(*ast.Ident); ok {
			assign(e, fr, id.Name, aval{}, false)
		}
		return c.next(e)
	case *ast.BlockStmt:
		return x.block(st.List, e, fr, c)
	case *ast.IfStmt:
		afterInit := c
		afterInit.next = func(e1 env) target {
			return x.expr(st.Cond, e1, fr, func(v []aval, e2 env) target {
				thenB := func(e3 env) target { return x.block(st.Body.List, e3, fr, c) }
				elseB := func(e3 env) target {
					if st.Else == nil {
						return c.next(e3)
					}
					return x.stmt(st.Else, e3, fr, c)
				}
				if len(v) == 1 && v[0].k == kBool {
					if v[0].b {
						return thenB(e2)
					}
					return elseB(e2)
				}
				if len(v) == 1 && v[0].k == kFound {
					return x.forkFound(e2, v[0], thenB, elseB)
				}
				return x.fork(e2, thenB, elseB, "if "+src(st.Cond))
			})
		}
		return x.stmt(st.Init, e, fr, afterInit)
	case *ast.ForStmt:
		var iter func(env) target
		post := func(e1 env) target {
			pc := c
			pc.next = iter
			pc.brk, pc.cnt = nil, nil
			return x.stmt(st.Post, e1, fr, pc)
		}
		body := func(e1 env) target {
			bc := ctl{next: post, brk: c.next, cnt: post, ret: c.ret}
			return x.block(st.Body.List, e1, fr, bc)
		}
		iter = func(e1 env) target {
			if !x.tick() {
				return exitT
			}
			if st.Cond == nil {
				return body(e1)
			}
			return x.expr(st.Cond, e1, fr, func(v []aval, e2 env) target {
				if len(v) == 1 && v[0].k == kBool {
					if v[0].b {
						return body(e2)
					}
					return c.next(e2)
				}
				if !x.p.nodeImpure(st.Body) && !hasReturn(st.Body) {
					// a loop over thread-local data: what it assigns is not known afterwards
					x.assignedVars(st, e2, fr)
					return c.next(e2)
				}
				return x.fork(e2, body, c.next, "for "+src(st.Cond))
			})
		}
		ic := c
		ic.next = iter
		ic.brk, ic.cnt = nil, nil
		return x.stmt(st.Init, e, fr, ic)
	case *ast.RangeStmt:
		if x.p.nodeImpure(st.Body) || x.p.nodeImpure(st.X) || hasReturn(st.Body) {
			x.unsupported("range loop around atomic operations")
		}
		x.assignedVars(st, e, fr)
		return c.next(e)
	case *ast.BranchStmt:
		if st.Label != nil {
			x.unsupported("labelled " + st.Tok.String())
			return exitT
		}
		switch st.Tok {
		case token.BREAK:
			if c.brk != nil {
				return c.brk(e)
			}
		case token.CONTINUE:
			if c.cnt != nil {
				return c.cnt(e)
			}
		}
		x.unsupported(st.Tok.String() + " outside a for loop")
		return exitT
	case *ast.ReturnStmt:
		return x.exprs(st.Results, e, fr, func(vals []aval, e2 env) target { return c.ret(e2, vals) })
	case *ast.DeferStmt:
		if x.p.nodeImpure(st.Call) {
			x.unsupported("defer of an atomic / lock operation")
		}
		return c.next(e)
	case *ast.GoStmt:
		if x.p.nodeImpure(st.Call) {
			x.unsupported("go statement")
		}
		return c.next(e)
	case *ast.LabeledStmt:
		if x.p.nodeImpure(st.Stmt) {
			x.unsupported("labelled statement around atomic operations")
		}
		return x.stmt(st.Stmt, e, fr, c)
	case *ast.SwitchStmt, *ast.TypeSwitchStmt, *ast.SelectStmt:
		if x.p.nodeImpure(st) || hasReturn(st) {
			x.unsupported(fmt.Sprintf("%T around atomic operations or returns", st))
		}
		x.assignedVars(st, e, fr)
		return c.next(e)
	case *ast.SendStmt:
		x.unsupported("channel send")
		return c.next(e)
	}
	x.unsupported(fmt.Sprintf("statement %T", s))
	return c.next(e)
}

func src(n ast.Node) string {
	var b bytes.Buffer
	format.Node(&b, token.NewFileSet(), n)
	s := b.String()
	if len(s) > 60 {
		s = s[:60] + "..."
	}
	return strings.ReplaceAll(strings.ReplaceAll(s, "(*", "( *"), "*)", "* )")
}

func (x *xl) bind(lhs []ast.Expr, vals []aval, nrhs int, tok token.Token, e env, fr *frame) {
	for i, l := range lhs {
		id, ok := l.(*ast.Ident)
		if !ok {
			continue
		}
		v := aval{}
		if tok == token.ASSIGN || tok == token.DEFINE {
			if len(lhs) == nrhs && i < len(vals) {
				v = vals[i]
			} else if nrhs == 1 && i < len(vals) && len(vals) == len(lhs) {
				v = vals[i] // a, b := f()
			}
		}
		assign(e, fr, id.Name, v, tok == token.DEFINE)
	}
}

// exprs evaluates expressions left to right; a single call with several results yields them all.
func (x *xl) exprs(list []ast.Expr, e env, fr *frame, k func([]aval, env) target) target {
	if len(list) == 1 {
		return x.expr(list[0], e, fr, k)
	}
	var go1 func(i int, acc []aval, e1 env) target
	go1 = func(i int, acc []aval, e1 env) target {
		if i == len(list) {
			return k(acc, e1)
		}
		return x.expr(list[i], e1, fr, func(v []aval, e2 env) target {
			one := aval{}
			if len(v) >= 1 {
				one = v[0]
			}
			return go1(i+1, append(append([]aval(nil), acc...), one), e2)
		})
	}
	return go1(0, nil, e)
}

func minInt(a, b int) int {
	if a < b {
		return a
	}
	return b
}

func first(v []aval) aval {
	if len(v) == 0 {
		return aval{}
	}
	return v[0]
}

// expr evaluates one expression in Go's order, creating graph nodes for the atomic operations in it.
func (x *xl) expr(ex ast.Expr, e env, fr *frame, k func([]aval, env) target) target {
	if ex == nil {
		return k(nil, e)
	}
	if !x.p.nodeImpure(ex) {
		return k([]aval{x.abs(ex, e, fr, 0)}, e)
	}
	switch t := ex.(type) {
	case *ast.ParenExpr:
		return x.expr(t.X, e, fr, k)
	case *ast.UnaryExpr:
		if t.Op == token.ARROW {
			x.unsupported("channel receive")
		}
		return x.expr(t.X, e, fr, func(v []aval, e2 env) target {
			r := aval{}
			if t.Op == token.NOT && (first(v).k == kBool || first(v).k == kFound) {
				r = aval{k: first(v).k, b: !first(v).b}
			}
			return k([]aval{r}, e2)
		})
	case *ast.BinaryExpr:
		return x.expr(t.X, e, fr, func(v []aval, e2 env) target {
			l := first(v)
			if t.Op == token.LAND || t.Op == token.LOR {
				if l.k == kBool && l.b == (t.Op == token.LOR) {
					return k([]aval{l}, e2) // short-circuit
				}
				if l.k != kBool && x.p.nodeImpure(t.Y) {
					x.unsupported("atomic operation under a data-dependent && / ||")
				}
				return x.expr(t.Y, e2, fr, func(w []aval, e3 env) target {
					if l.k == kBool {
						return k([]aval{first(w)}, e3)
					}
					return k([]aval{{}}, e3)
				})
			}
			return x.expr(t.Y, e2, fr, func(_ []aval, e3 env) target { return k([]aval{{}}, e3) })
		})
	case *ast.CallExpr:
		return x.call(t, e, fr, k)
	case *ast.SelectorExpr:
		return x.expr(t.X, e, fr, func(_ []aval, e2 env) target { return k([]aval{{}}, e2) })
	case *ast.StarExpr:
		return x.expr(t.X, e, fr, func(_ []aval, e2 env) target { return k([]aval{{}}, e2) })
	case *ast.TypeAssertExpr:
		return x.expr(t.X, e, fr, func(_ []aval, e2 env) target {
			if t.Type != nil && x.p.isHolderPtr(t.Type) {
				// the value stored in the context under the package's key: the holder that other
				// contexts (goroutines) may share, and whether there is one
				return k([]aval{{k: kHolder}, {k: kFound, b: true}}, e2)
			}
			return k([]aval{{}}, e2)
		})
	case *ast.IndexExpr:
		return x.exprs([]ast.Expr{t.X, t.Index}, e, fr, func(_ []aval, e2 env) target { return k([]aval{{}}, e2) })
	case *ast.KeyValueExpr:
		return x.expr(t.Value, e, fr, k)
	case *ast.CompositeLit:
		return x.exprs(t.Elts, e, fr, func(_ []aval, e2 env) target { return k([]aval{x.abs(ex, e2, fr, 0)}, e2) })
	}
	x.unsupported(fmt.Sprintf("atomic operation inside %T", ex))
	return k([]aval{{}}, e)
}

func (x *xl) newNode(site *ast.CallExpr, kindS, tag string, e env, fr *frame) (int, bool) {
	key := fmt.Sprintf("%p|%s|%s|%s|%s", site, fr.id, kindS, tag, e.digest())
	if id, ok := x.memo[key]; ok {
		return id, false
	}
	id := len(x.nodes)
	x.nodes = append(x.nodes, node{kind: kindS, tag: tag, succ: exitT, fail: exitT})
	x.memo[key] = id
	return id, true
}

func (x *xl) call(c *ast.CallExpr, e env, fr *frame, k func([]aval, env) target) target {
	if !x.tick() {
		return exitT
	}
	if m, ok := atomicCall(c); ok {
		sel := c.Fun.(*ast.SelectorExpr)
		return x.expr(sel.X, e, fr, func(rv []aval, e1 env) target {
			return x.exprs(c.Args, e1, fr, func(args []aval, e2 env) target {
				recv := first(rv)
				if recv.k == kFresh {
					// thread-local: nobody else can see this holder yet
					x.fresh[c] = true
					if m == "Store" && x.off == 0 {
						x.stored = append(x.stored, first(args))
					}
					r := aval{}
					if m == "CompareAndSwap" {
						r = aval{k: kBool, b: true} // nobody else can have changed a thread-local holder
					}
					return k([]aval{r}, e2)
				}
				x.shared[c] = true
				if recv.k != kHolder {
					x.unsupported("atomic " + m + " on " + src(sel.X) + ", which is not known to be the context's holder")
				}
				switch m {
				case "Load":
					e3 := e2.clone()
					for key, v := range e3 {
						if v.k == kLatest || v.k == kDerived {
							e3[key] = aval{k: kStale}
						}
					}
					id, isNew := x.newNode(c, "Load", "", e3, fr)
					if isNew {
						x.nodes[id].succ = k([]aval{{k: kLatest}}, e3)
					}
					return target(id)
				case "Store":
					tag := x.fnTag(first(args))
					id, isNew := x.newNode(c, "Store", tag, e2, fr)
					if isNew {
						x.nodes[id].succ = k([]aval{{}}, e2.clone())
					}
					return target(id)
				case "CompareAndSwap":
					tag := x.fnTag(args[1])
					if args[0].k != kLatest {
						tag = "FComparedValueIsNotThePointerLoadedLast"
					}
					id, isNew := x.newNode(c, "Cas", tag, e2, fr)
					if isNew {
						x.nodes[id].succ = k([]aval{{k: kBool, b: true}}, e2.clone())
						x.nodes[id].fail = k([]aval{{k: kBool, b: false}}, e2.clone())
					}
					return target(id)
				}
				x.unsupported("atomic " + m)
				return k([]aval{{}}, e2)
			})
		})
	}
	if m, ok := lockCall(c); ok {
		x.unsupported("mutex " + m)
		return k([]aval{{}}, e)
	}
	// a package function / method, or a local function value
	var recvX ast.Expr
	var decl *ast.FuncDecl
	var lit *ast.FuncLit
	var litFr *frame
	switch f := c.Fun.(type) {
	case *ast.Ident:
		if v, ok := lookup(e, fr, f.Name); ok && v.k == kClosure {
			lit, litFr = v.lit, v.fr
		} else {
			decl = x.p.funcs[f.Name]
		}
	case *ast.SelectorExpr:
		if id, ok := f.X.(*ast.Ident); !ok || !pkgQualifier[id.Name] {
			recvX = f.X
		}
	case *ast.FuncLit:
		lit, litFr = f, fr
	}
	if decl != nil && x.p.source[decl] {
		// looks the shared holder up in the context: (holder, found)
		return x.exprs(c.Args, e, fr, func(_ []aval, e2 env) target {
			out := []aval{{k: kHolder}}
			for i := 1; decl.Type.Results != nil && i < decl.Type.Results.NumFields(); i++ {
				v := aval{}
				if id, ok := decl.Type.Results.List[minInt(i, len(decl.Type.Results.List)-1)].Type.(*ast.Ident); ok && id.Name == "bool" {
					v = aval{k: kFound, b: true}
				}
				out = append(out, v)
			}
			return k(out, e2)
		})
	}
	evalRecv := func(e1 env, kk func(aval, env) target) target {
		if recvX == nil {
			return kk(aval{}, e1)
		}
		return x.expr(recvX, e1, fr, func(v []aval, e2 env) target { return kk(first(v), e2) })
	}
	return evalRecv(e, func(rv aval, e1 env) target {
		return x.exprs(c.Args, e1, fr, func(args []aval, e2 env) target {
			if len(c.Args) == 1 && len(args) > 1 {
				// f(g()) with a multi-valued g: not needed here
				args = args[:1]
			}
			if recvX != nil {
				decl = x.p.holderMethod(c, rv)
			}
			switch {
			case decl != nil && x.p.impure[decl]:
				return x.inline(decl.Name.Name, decl.Recv, decl.Type, decl.Body, nil, rv, args, c, e2, fr, k)
			case lit != nil:
				return x.inline("func", nil, lit.Type, lit.Body, litFr, aval{}, args, c, e2, fr, k)
			}
			return k([]aval{x.absCallVals(c, rv, args, e2, fr, 0)}, e2)
		})
	})
}

var pkgQualifier = map[string]bool{"zap": true, "zapcore": true, "context": true, "atomic": true, "zaptest": true,
	"sync": true, "fmt": true, "runtime": true, "testing": true}

// holderMethod resolves recv.m(..) to a method of the package declared on a holder type, when
// the receiver is a holder (go/ast has no types: other receivers are taken for foreign calls).
func (p *pkgInfo) holderMethod(c *ast.CallExpr, recv aval) *ast.FuncDecl {
	if recv.k != kHolder && recv.k != kFresh {
		return nil
	}
	sel, ok := c.Fun.(*ast.SelectorExpr)
	if !ok {
		return nil
	}
	d := p.methods[sel.Sel.Name]
	if d == nil || d.Recv == nil || len(d.Recv.List) != 1 {
		return nil
	}
	t := d.Recv.List[0].Type
	if st, ok := t.(*ast.StarExpr); ok {
		t = st.X
	}
	if id, ok := t.(*ast.Ident); ok && p.holderT[id.Name] {
		return d
	}
	return nil
}

// inline executes a callee body in a frame of its own and hands its results to k.
func (x *xl) inline(name string, recv *ast.FieldList, typ *ast.FuncType, body *ast.BlockStmt, parent *frame,
	rv aval, args []aval, site *ast.CallExpr, e env, caller *frame, k func([]aval, env) target) target {
	if x.depth > 12 {
		x.unsupported("call depth (recursion?) at " + name)
		return k([]aval{{}}, e)
	}
	x.nframes++
	fr := &frame{id: fmt.Sprintf("%s>%s@%d", caller.id, name, site.Pos()), parent: parent}
	bindParams(typ, recv, rv, args, site.Ellipsis.IsValid(), e, fr)
	finish := func(e1 env, vals []aval) target {
		pre := fr.id + "."
		for key := range e1 {
			if strings.HasPrefix(key, pre) {
				delete(e1, key)
			}
		}
		if vals == nil {
			n := 0
			if typ.Results != nil {
				n = typ.Results.NumFields()
			}
			vals = make([]aval, n)
		}
		x.depth--
		defer func() { x.depth++ }()
		return k(vals, e1)
	}
	x.depth++
	defer func() { x.depth-- }()
	return x.block(body.List, e, fr, ctl{
		next: func(e1 env) target { return finish(e1, nil) },
		ret:  func(e1 env, vals []aval) target { return finish(e1, vals) },
	})
}

func bindParams(typ *ast.FuncType, recv *ast.FieldList, rv aval, args []aval, ellipsis bool, e env, fr *frame) {
	if recv != nil && len(recv.List) == 1 && len(recv.List[0].Names) == 1 {
		e[fr.id+"."+recv.List[0].Names[0].Name] = rv
	}
	i := 0
	for _, f := range typ.Params.List {
		_, variadic := f.Type.(*ast.Ellipsis)
		for _, n := range f.Names {
			v := aval{}
			if variadic {
				if ellipsis && i == len(args)-1 {
					v = args[i]
				}
			} else if i < len(args) {
				v = args[i]
			}
			e[fr.id+"."+n.Name] = v
			i++
		}
	}
}

func (x *xl) fnTag(v aval) string {
	switch v.k {
	case kDerived:
		return v.tag
	case kStale:
		return "FNewValueDerivedFromAStalePointer"
	case kLatest:
		return "FNewValueIsTheLoadedPointerItself"
	}
	return "FUnknown"
}

// abs evaluates an expression without atomic operations to an abstract value.
func (x *xl) abs(ex ast.Expr, e env, fr *frame, depth int) aval {
	if depth > 8 {
		return aval{}
	}
	switch t := ex.(type) {
	case *ast.Ident:
		switch t.Name {
		case "true":
			return aval{k: kBool, b: true}
		case "false":
			return aval{k: kBool, b: false}
		}
		if v, ok := lookup(e, fr, t.Name); ok {
			return v
		}
	case *ast.ParenExpr:
		return x.abs(t.X, e, fr, depth)
	case *ast.UnaryExpr:
		v := x.abs(t.X, e, fr, depth)
		if t.Op == token.NOT && (v.k == kBool || v.k == kFound) {
			return aval{k: v.k, b: !v.b}
		}
		if t.Op == token.AND {
			if cl, ok := t.X.(*ast.CompositeLit); ok {
				if id, ok := cl.Type.(*ast.Ident); ok && x.p.holderT[id.Name] {
					return aval{k: kFresh}
				}
			}
		}
	case *ast.BinaryExpr:
		l, r := x.abs(t.X, e, fr, depth), x.abs(t.Y, e, fr, depth)
		if l.k == kBool && r.k == kBool {
			switch t.Op {
			case token.LAND:
				return aval{k: kBool, b: l.b && r.b}
			case token.LOR:
				return aval{k: kBool, b: l.b || r.b}
			case token.EQL:
				return aval{k: kBool, b: l.b == r.b}
			case token.NEQ:
				return aval{k: kBool, b: l.b != r.b}
			}
		}
		if l.k == kBool && ((t.Op == token.LAND && !l.b) || (t.Op == token.LOR && l.b)) {
			return l
		}
	case *ast.FuncLit:
		return aval{k: kClosure, lit: t, fr: fr}
	case *ast.CallExpr:
		return x.absCall(t, e, fr, depth)
	}
	return aval{}
}

func (x *xl) absCall(c *ast.CallExpr, e env, fr *frame, depth int) aval {
	args := make([]aval, len(c.Args))
	for i, a := range c.Args {
		args[i] = x.abs(a, e, fr, depth)
	}
	recv := aval{}
	if f, ok := c.Fun.(*ast.SelectorExpr); ok {
		if id, ok := f.X.(*ast.Ident); !ok || !pkgQualifier[id.Name] {
			recv = x.abs(f.X, e, fr, depth)
		}
	}
	return x.absCallVals(c, recv, args, e, fr, depth)
}

// absCallVals: the abstract result of a call without atomic operations, given its receiver and arguments.
func (x *xl) absCallVals(c *ast.CallExpr, recv aval, args []aval, e env, fr *frame, depth int) aval {
	switch f := c.Fun.(type) {
	case *ast.SelectorExpr:
		if f.Sel.Name == "With" && (recv.k == kLatest || recv.k == kStale) {
			if recv.k == kStale {
				return aval{k: kStale}
			}
			if len(args) == 1 && c.Ellipsis.IsValid() && args[0].k == kFields {
				return aval{k: kDerived, tag: "FWith"}
			}
			return aval{k: kDerived, tag: "FWithOfSomethingElseThanTheFieldsGiven"}
		}
		if decl := x.p.holderMethod(c, recv); decl != nil && !x.p.impure[decl] && !x.p.source[decl] {
			return x.absInline(decl.Recv, decl.Type, decl.Body, nil, recv, args, c.Ellipsis.IsValid(), e, depth)
		}
	case *ast.Ident:
		if f.Name == "CustomLevelLogger" && len(args) == 2 {
			switch {
			case args[0].k == kStale:
				return aval{k: kStale}
			case args[0].k == kLatest && args[1].k == kLevel:
				return aval{k: kDerived, tag: "FLevel"}
			case args[0].k == kLatest:
				return aval{k: kDerived, tag: "FLevelOfSomethingElseThanTheLevelGiven"}
			}
			return aval{}
		}
		if v, ok := lookup(e, fr, f.Name); ok && v.k == kClosure {
			return x.absInline(nil, v.lit.Type, v.lit.Body, v.fr, aval{}, args, c.Ellipsis.IsValid(), e, depth)
		}
		if decl := x.p.funcs[f.Name]; decl != nil && !x.p.impure[decl] && !x.p.source[decl] {
			return x.absInline(nil, decl.Type, decl.Body, nil, aval{}, args, c.Ellipsis.IsValid(), e, depth)
		}
	case *ast.FuncLit:
		return x.absInline(nil, f.Type, f.Body, fr, aval{}, args, c.Ellipsis.IsValid(), e, depth)
	}
	return aval{}
}

// absInline evaluates a straight-line pure body (assignments, then a return).
func (x *xl) absInline(recv *ast.FieldList, typ *ast.FuncType, body *ast.BlockStmt, parent *frame, rv aval,
	args []aval, ellipsis bool, outer env, depth int) aval {
	x.nframes++
	fr := &frame{id: fmt.Sprintf("pure%d", x.nframes), parent: parent}
	e := outer.clone() // a closure reads its captured variables through its parent frame
	bindParams(typ, recv, rv, args, ellipsis, e, fr)
	for _, s := range body.List {
		switch st := s.(type) {
		case *ast.AssignStmt:
			vals := make([]aval, len(st.Rhs))
			for i, r := range st.Rhs {
				vals[i] = x.abs(r, e, fr, depth+1)
			}
			x.bind(st.Lhs, vals, len(st.Rhs), st.Tok, e, fr)
		case *ast.ReturnStmt:
			if len(st.Results) >= 1 {
				return x.abs(st.Results[0], e, fr, depth+1)
			}
			return aval{}
		default:
			return aval{}
		}
	}
	return aval{}
}

// ---------- one entry function ----------
func (p *pkgInfo) graph(name string) (*xl, []string) {
	fn := p.funcs[name]
	x := &xl{p: p, root: name, memo: map[string]int{}, fresh: map[*ast.CallExpr]bool{}, shared: map[*ast.CallExpr]bool{}}
	if fn == nil {
		return x, []string{"GFunctionNotFound (* " + name + " is not declared in the files that take part in the build; excluded by build constraints: " + strings.Join(p.excluded, " ") + " *)"}
	}
	for _, d := range p.dupFuncs {
		if d == name {
			return x, []string{"GDeclaredMoreThanOnce (* " + name + " *)"}
		}
	}
	fr := &frame{id: name}
	e := env{}
	for _, f := range fn.Type.Params.List {
		v := aval{}
		switch t := f.Type.(type) {
		case *ast.Ellipsis:
			v = aval{k: kFields}
		case *ast.SelectorExpr:
			switch t.Sel.Name {
			case "Context":
				v = aval{k: kCtx}
			case "Level":
				v = aval{k: kLevel}
			}
		}
		for _, n := range f.Names {
			e[fr.id+"."+n.Name] = v
		}
	}
	x.block(fn.Body.List, e, fr, ctl{
		next: func(env) target { return exitT },
		ret:  func(env, []aval) target { return exitT },
	})
	n := len(x.nodes)
	tgt := func(t target) int {
		if t == exitT {
			return n
		}
		return int(t)
	}
	readOnly := true
	for _, nd := range x.nodes {
		if nd.kind != "Load" {
			readOnly = false
		}
	}
	var out []string
	for _, nd := range x.nodes {
		switch nd.kind {
		case "Load":
			if readOnly && nd.succ == exitT {
				out = append(out, fmt.Sprintf("GRead %d", tgt(nd.succ)))
			} else {
				out = append(out, fmt.Sprintf("GLoad %d", tgt(nd.succ)))
			}
		case "Store":
			out = append(out, fmt.Sprintf("GStore %s %d", nd.tag, tgt(nd.succ)))
		case "Cas":
			out = append(out, fmt.Sprintf("GCas %s %d %d", nd.tag, tgt(nd.succ), tgt(nd.fail)))
		}
	}
	if name == "ChildLogger" {
		// the logger the child starts from must be the loaded one with the fields given
		ok := len(x.stored) > 0
		for _, v := range x.stored {
			if !(v.k == kDerived && v.tag == "FWith") {
				ok = false
			}
		}
		if !ok {
			x.unsupported("the child's holder is not initialised with loaded.With(fields...)")
		}
	}
	for _, b := range x.bad {
		out = append(out, "GUnsupported (* "+b+" *)")
	}
	for _, b := range p.structural() {
		out = append(out, "GUnsupported (* "+b+" *)")
	}
	return x, out
}

// ---------- instrumentation ----------
func (p *pkgInfo) reachable(roots []string) map[*ast.FuncDecl]bool {
	seen := map[*ast.FuncDecl]bool{}
	var visit func(fn *ast.FuncDecl)
	visit = func(fn *ast.FuncDecl) {
		if fn == nil || seen[fn] || p.source[fn] {
			return
		}
		seen[fn] = true
		ast.Inspect(fn.Body, func(n ast.Node) bool {
			if c, ok := n.(*ast.CallExpr); ok {
				visit(p.callee(c))
			}
			return true
		})
	}
	for _, r := range roots {
		visit(p.funcs[r])
	}
	return seen
}

func (p *pkgInfo) instrument(reach map[*ast.FuncDecl]bool, freshOnly map[*ast.CallExpr]bool) int {
	n := 0
	hook := func(e ast.Expr) ast.Expr {
		return &ast.CallExpr{Fun: ast.NewIdent("verifBefore"), Args: []ast.Expr{e}}
	}
	for fn := range reach {
		ast.Inspect(fn.Body, func(m ast.Node) bool {
			c, ok := m.(*ast.CallExpr)
			if !ok {
				return true
			}
			if _, ok := atomicCall(c); ok && !freshOnly[c] {
				n++
				if k := len(c.Args); k > 0 {
					c.Args[k-1] = hook(c.Args[k-1])
				} else {
					// x.Load() -> verifCall0(x.Load): the receiver is evaluated (for a value-typed
					// atomic field of the holder: its address is taken), the hook runs, then the
					// call.  Nothing is copied, whatever the type of x.
					c.Args = []ast.Expr{c.Fun}
					c.Fun = ast.NewIdent("verifCall0")
				}
				return true
			}
			if name, ok := lockCall(c); ok {
				n++
				sel := c.Fun.(*ast.SelectorExpr)
				helper, method := "verifUnlock", name
				switch name {
				case "Lock":
					helper, method = "verifLock", "TryLock"
				case "RLock":
					helper, method = "verifLock", "TryRLock"
				}
				c.Fun = ast.NewIdent(helper)
				c.Args = []ast.Expr{&ast.SelectorExpr{X: sel.X, Sel: ast.NewIdent(method)}}
				return false
			}
			return true
		})
	}
	return n
}

var entries = []struct{ goName, coqName string }{
	{"WithFields", "gen_withfields"}, {"SetLevel", "gen_setlevel"}, {"ChildLogger", "gen_child"}}

func main() {
	srcp := flag.String("src", "", "path of log/context_utils.go (the whole package directory is read)")
	gen := flag.String("gen", "", "write the Gallina graph table here")
	instr := flag.Bool("instrument", false, "rewrite the package in place with scheduler hooks")
	wrapgen := flag.String("wrapgen", "", "write the Gallina translation of the level-override core (custom_level.go) here")
	flag.Parse()
	p, err := loadPkg(filepath.Dir(*srcp))
	if err != nil {
		fmt.Fprintln(os.Stderr, err)
		os.Exit(1)
	}
	if *wrapgen != "" {
		if err := wrapperGen(p, *wrapgen); err != nil {
			fmt.Fprintln(os.Stderr, err)
			os.Exit(1)
		}
	}
	graphs := map[string][]string{}
	freshOnly := map[*ast.CallExpr]bool{}
	shared := map[*ast.CallExpr]bool{}
	for _, en := range entries {
		x, g := p.graph(en.goName)
		graphs[en.goName] = g
		for c := range x.fresh {
			freshOnly[c] = true
		}
		for c := range x.shared {
			shared[c] = true
		}
	}
	for c := range shared {
		delete(freshOnly, c)
	}
	if *gen != "" {
		var b strings.Builder
		b.WriteString("(* generated by xlate_logconc from package log - do not edit *)\n")
		b.WriteString("From Coq Require Import List ZArith.\nFrom GT Require Import Base.LogConc.\nFrom GT Require Import Base.LogConcCfg.\nFrom GT Require Import LogCtxModel.\nImport ListNotations.\n")
		for _, en := range entries {
			fmt.Fprintf(&b, "Definition %s : list (ginstr fn) := [%s].\n", en.coqName, strings.Join(graphs[en.goName], "; "))
		}
		b.WriteString("Definition gen_prog (o : cop) : list (ginstr fn) :=\n  match o with CWith _ => gen_withfields | CSetLevel _ => gen_setlevel | CChild _ => gen_child end.\n")
		if err := os.WriteFile(*gen, []byte(b.String()), 0o644); err != nil {
			fmt.Fprintln(os.Stderr, err)
			os.Exit(1)
		}
	}
	if *instr {
		n := p.instrument(p.reachable([]string{"WithFields", "SetLevel", "ChildLogger"}), freshOnly)
		for path, f := range p.files {
			var b bytes.Buffer
			if err := format.Node(&b, p.fset, f); err != nil {
				fmt.Fprintln(os.Stderr, err)
				os.Exit(1)
			}
			if err := os.WriteFile(path, b.Bytes(), 0o644); err != nil {
				fmt.Fprintln(os.Stderr, err)
				os.Exit(1)
			}
		}
		fmt.Printf("instrumented %d sites\n", n)
	}
	for _, en := range entries {
		fmt.Printf("%s: [%s]\n", en.goName, strings.Join(graphs[en.goName], "; "))
	}
}
