// xlate_logconc — reads log/context_utils.go of the current tree with go/ast and
//
//  1. (-gen FILE) lists, for WithFields and SetLevel, the atomic operations on the shared
//     holder in evaluation order as a term of the instruction type of Base/LogConc.v
//     (ILoad | IStore f | ICas f retry_pc), to be compared with the hand-written programs of
//     LogCtxModel.v by eq_refl;
//  2. (-instrument) rewrites the same file in place so that a scheduler hook runs before each
//     of exactly those operations (same walk, so yield sites and instructions line up):
//     lh.Load() becomes verifBefore(lh).Load(), lh.Store(x) becomes lh.Store(verifBefore(x)),
//     lh.CompareAndSwap(a, b) becomes lh.CompareAndSwap(a, verifBefore(b)).
//     Mutexes (not part of the instruction set, the tie then breaks) are made schedulable too:
//     mu.Lock() becomes verifLock(mu.TryLock) — a yield, then a yield-spin on TryLock, so a
//     goroutine waiting for the lock just burns steps — mu.RLock() verifLock(mu.TryRLock),
//     mu.Unlock()/RUnlock() verifUnlock(mu.Unlock) — a yield, then the unlock.
//
// Only the standard library is used.
package main

import (
	"bytes"
	"flag"
	"fmt"
	"go/ast"
	"go/format"
	"go/parser"
	"go/token"
	"os"
	"strings"
)

var atomicMethods = map[string]bool{"Load": true, "Store": true, "CompareAndSwap": true, "Swap": true}

type site struct {
	call   *ast.CallExpr
	method string
	loop   int // pc of the first instruction of the innermost enclosing retry loop; -1: none
	inCond bool
	skip   bool // a second spelling of an instruction already listed (reload in a `for !CAS` body)
	tag    string
}

type walker struct {
	holder   string
	sites    []site
	other    []string            // shared-memory constructs the instruction type cannot express
	locks    []*ast.CallExpr     // mu.Lock() / RLock() / Unlock() / RUnlock() calls
	defs     map[string]ast.Expr // local variable -> the expression last assigned to it
	soleExit map[*ast.IfStmt]bool
	loopDefs map[string]bool      // variables assigned inside the current retry loop (nil: not in one)
	reload   map[*ast.ForStmt]int // `for !CAS { reload }` loops -> pc of the Load before them
	pc       int                  // instructions listed so far
	skipping bool                 // inside the body of a `for !CAS(x, ..) { x = Load() }` loop
}

// holderVar finds the variable bound to the first result of getOrDefault(...).
func holderVar(fn *ast.FuncDecl) string {
	name := ""
	ast.Inspect(fn.Body, func(n ast.Node) bool {
		as, ok := n.(*ast.AssignStmt)
		if !ok || len(as.Rhs) != 1 || name != "" {
			return true
		}
		if c, ok := as.Rhs[0].(*ast.CallExpr); ok {
			if id, ok := c.Fun.(*ast.Ident); ok && id.Name == "getOrDefault" && len(as.Lhs) > 0 {
				if l, ok := as.Lhs[0].(*ast.Ident); ok {
					name = l.Name
				}
			}
		}
		return true
	})
	return name
}

// expr visits an expression in Go's evaluation order (operands and arguments before the call).
func (w *walker) expr(e ast.Expr, loop int, inCond bool) {
	switch x := e.(type) {
	case nil:
	case *ast.CallExpr:
		sel, isSel := x.Fun.(*ast.SelectorExpr)
		if isSel {
			w.expr(sel.X, loop, inCond)
		} else {
			w.expr(x.Fun, loop, inCond)
		}
		for _, a := range x.Args {
			w.expr(a, loop, inCond)
		}
		if isSel {
			if id, ok := sel.X.(*ast.Ident); ok && id.Name == w.holder && atomicMethods[sel.Sel.Name] {
				tag := ""
				switch {
				case sel.Sel.Name == "CompareAndSwap" && len(x.Args) == 2:
					tag = w.casTag(x)
				case sel.Sel.Name == "Store" && len(x.Args) == 1:
					tag = w.fnTag(x.Args[0])
				}
				w.sites = append(w.sites, site{x, sel.Sel.Name, loop, inCond, w.skipping, tag})
				if !w.skipping {
					w.pc++
				}
			} else if (sel.Sel.Name == "Lock" || sel.Sel.Name == "Unlock" || sel.Sel.Name == "RLock" || sel.Sel.Name == "RUnlock") && len(x.Args) == 0 {
				// a mutex: outside the instruction set (the tie breaks), but it gets its yields
				w.other = append(w.other, sel.Sel.Name)
				w.locks = append(w.locks, x)
			}
		}
	case *ast.ParenExpr:
		w.expr(x.X, loop, inCond)
	case *ast.UnaryExpr:
		if x.Op == token.ARROW {
			w.other = append(w.other, "chan-receive")
		}
		w.expr(x.X, loop, inCond)
	case *ast.BinaryExpr:
		w.expr(x.X, loop, inCond)
		w.expr(x.Y, loop, inCond)
	case *ast.SelectorExpr:
		w.expr(x.X, loop, inCond)
	case *ast.StarExpr:
		w.expr(x.X, loop, inCond)
	case *ast.IndexExpr:
		w.expr(x.X, loop, inCond)
		w.expr(x.Index, loop, inCond)
	case *ast.CompositeLit:
		for _, el := range x.Elts {
			w.expr(el, loop, inCond)
		}
	case *ast.KeyValueExpr:
		w.expr(x.Value, loop, inCond)
	case *ast.FuncLit:
		w.other = append(w.other, "func-literal")
		w.stmts(x.Body.List, -1)
	case *ast.TypeAssertExpr:
		w.expr(x.X, loop, inCond)
	}
}

func (w *walker) stmts(list []ast.Stmt, loop int) {
	for i, s := range list {
		if i+1 < len(list) {
			if f, ok := list[i+1].(*ast.ForStmt); ok && w.reloadLoop(s, f) {
				// x := lh.Load(); for !lh.CompareAndSwap(x, F(x)) { x = lh.Load() }
				// performs Load, CAS, (Load, CAS)*: the same atomic-operation sequence as
				// for { x := lh.Load(); if lh.CompareAndSwap(x, F(x)) { break } }
				w.reload[f] = w.pc
			}
		}
		w.stmt(s, loop)
	}
}

func (w *walker) holderCall(e ast.Expr, method string) *ast.CallExpr {
	c, ok := e.(*ast.CallExpr)
	if !ok {
		return nil
	}
	sel, ok := c.Fun.(*ast.SelectorExpr)
	if !ok || sel.Sel.Name != method {
		return nil
	}
	if id, ok := sel.X.(*ast.Ident); !ok || id.Name != w.holder {
		return nil
	}
	return c
}

// reloadLoop recognises  x := lh.Load()  followed by  for !lh.CompareAndSwap(x, ..) { x = lh.Load() }.
func (w *walker) reloadLoop(pre ast.Stmt, f *ast.ForStmt) bool {
	as, ok := pre.(*ast.AssignStmt)
	if !ok || len(as.Lhs) != 1 || len(as.Rhs) != 1 || w.holderCall(as.Rhs[0], "Load") == nil {
		return false
	}
	x, ok := as.Lhs[0].(*ast.Ident)
	if !ok || f.Init != nil || f.Post != nil || f.Cond == nil || len(f.Body.List) != 1 {
		return false
	}
	not, ok := f.Cond.(*ast.UnaryExpr)
	if !ok || not.Op != token.NOT {
		return false
	}
	cas := w.holderCall(not.X, "CompareAndSwap")
	if cas == nil || len(cas.Args) != 2 {
		return false
	}
	if old, ok := cas.Args[0].(*ast.Ident); !ok || old.Name != x.Name {
		return false
	}
	re, ok := f.Body.List[0].(*ast.AssignStmt)
	if !ok || re.Tok != token.ASSIGN || len(re.Lhs) != 1 || len(re.Rhs) != 1 || w.holderCall(re.Rhs[0], "Load") == nil {
		return false
	}
	y, ok := re.Lhs[0].(*ast.Ident)
	return ok && y.Name == x.Name
}

func (w *walker) stmt(s ast.Stmt, loop int) {
	switch x := s.(type) {
	case nil:
	case *ast.ExprStmt:
		w.expr(x.X, loop, false)
	case *ast.AssignStmt:
		for _, r := range x.Rhs {
			w.expr(r, loop, false)
		}
		if len(x.Lhs) == len(x.Rhs) {
			for i, l := range x.Lhs {
				if id, ok := l.(*ast.Ident); ok {
					w.defs[id.Name] = x.Rhs[i]
					if w.loopDefs != nil {
						w.loopDefs[id.Name] = true
					}
				}
			}
		}
	case *ast.DeclStmt:
		if gd, ok := x.Decl.(*ast.GenDecl); ok {
			for _, sp := range gd.Specs {
				if vs, ok := sp.(*ast.ValueSpec); ok {
					for _, v := range vs.Values {
						w.expr(v, loop, false)
					}
				}
			}
		}
	case *ast.ReturnStmt:
		for _, r := range x.Results {
			w.expr(r, loop, false)
		}
	case *ast.IfStmt:
		// the guard of a retry loop: `if CAS(..) { break }` or `if ok := CAS(..); ok { break }`,
		// and only when leaving through this `if` is the loop's sole exit
		guard := loop >= 0 && w.soleExit[x]
		if as, ok := x.Init.(*ast.AssignStmt); ok && guard {
			if _, isIdent := x.Cond.(*ast.Ident); isIdent {
				for _, r := range as.Rhs {
					w.expr(r, loop, true)
				}
			} else {
				w.stmt(x.Init, loop)
			}
		} else {
			w.stmt(x.Init, loop)
		}
		w.expr(x.Cond, loop, guard)
		w.stmts(x.Body.List, loop)
		w.stmt(x.Else, loop)
	case *ast.BlockStmt:
		w.stmts(x.List, loop)
	case *ast.ForStmt:
		if start, ok := w.reload[x]; ok {
			// the loaded variable counts as assigned in the loop; the new value must be an
			// expression over it written in the condition itself (evaluated on every attempt)
			not := x.Cond.(*ast.UnaryExpr)
			old := w.holderCall(not.X, "CompareAndSwap").Args[0].(*ast.Ident)
			saved := w.loopDefs
			w.loopDefs = map[string]bool{old.Name: true}
			w.expr(x.Cond, start, true) // the CAS: on failure back to the (re)Load
			w.loopDefs = saved
			w.skipping = true // the reload is the Load already listed at `start`
			w.stmts(x.Body.List, start)
			w.skipping = false
			return
		}
		w.stmt(x.Init, loop)
		if x.Cond != nil {
			// not a spelling of the retry loop: the instruction list cannot express it (the tie
			// breaks), but every atomic call in it is still found, so that it gets its yield
			w.other = append(w.other, "for-with-condition")
			w.expr(x.Cond, -1, false)
		}
		w.markSoleExit(x)
		saved := w.loopDefs
		w.loopDefs = map[string]bool{}
		w.stmts(x.Body.List, w.pc)
		w.loopDefs = saved
		w.stmt(x.Post, loop)
	case *ast.RangeStmt:
		w.other = append(w.other, "range")
		w.expr(x.X, loop, false)
		w.stmts(x.Body.List, -1)
	case *ast.GoStmt:
		w.other = append(w.other, "go")
		w.expr(x.Call, -1, false)
	case *ast.DeferStmt:
		w.other = append(w.other, "defer")
		w.expr(x.Call, -1, false)
	case *ast.SendStmt:
		w.other = append(w.other, "chan-send")
		w.expr(x.Value, loop, false)
	case *ast.SelectStmt:
		w.other = append(w.other, "select")
		w.stmts(x.Body.List, -1)
	case *ast.CommClause:
		w.stmt(x.Comm, -1)
		w.stmts(x.Body, -1)
	case *ast.SwitchStmt:
		w.other = append(w.other, "switch")
		w.stmt(x.Init, loop)
		w.expr(x.Tag, loop, false)
		w.stmts(x.Body.List, -1)
	case *ast.TypeSwitchStmt:
		w.other = append(w.other, "type-switch")
		w.stmts(x.Body.List, -1)
	case *ast.CaseClause:
		for _, e := range x.List {
			w.expr(e, -1, false)
		}
		w.stmts(x.Body, -1)
	case *ast.LabeledStmt:
		w.stmt(x.Stmt, loop)
	case *ast.IncDecStmt:
		w.expr(x.X, loop, false)
	}
}

// exits counts the break / return statements of a loop body (not those of nested loops,
// switches or function literals).
func exits(n ast.Node) int {
	c := 0
	ast.Inspect(n, func(m ast.Node) bool {
		switch y := m.(type) {
		case *ast.ForStmt, *ast.RangeStmt, *ast.SwitchStmt, *ast.TypeSwitchStmt, *ast.SelectStmt, *ast.FuncLit:
			return m == n
		case *ast.BranchStmt:
			if y.Tok == token.BREAK || y.Tok == token.GOTO {
				c++
			}
		case *ast.ReturnStmt:
			c++
		}
		return true
	})
	return c
}

// markSoleExit records the top-level `if` statements of a `for {}` body through which alone
// the loop can be left (their body ends in break/return and holds every exit of the loop).
func (w *walker) markSoleExit(f *ast.ForStmt) {
	total := exits(f.Body)
	// for { x := Load(); if !CAS(x, ..) { continue }; break }  — the negated guard
	if n := len(f.Body.List); n >= 2 && total == 1 {
		last := f.Body.List[n-1]
		_, isRet := last.(*ast.ReturnStmt)
		br, isBr := last.(*ast.BranchStmt)
		if ifs, ok := f.Body.List[n-2].(*ast.IfStmt); ok && (isRet || (isBr && br.Tok == token.BREAK)) &&
			ifs.Else == nil && ifs.Init == nil && len(ifs.Body.List) == 1 {
			if not, ok := ifs.Cond.(*ast.UnaryExpr); ok && not.Op == token.NOT {
				if c, ok := ifs.Body.List[0].(*ast.BranchStmt); ok && c.Tok == token.CONTINUE && c.Label == nil {
					w.soleExit[ifs] = true
				}
			}
		}
	}
	for _, s := range f.Body.List {
		ifs, ok := s.(*ast.IfStmt)
		if !ok || ifs.Else != nil || len(ifs.Body.List) == 0 {
			continue
		}
		last := ifs.Body.List[len(ifs.Body.List)-1]
		_, isRet := last.(*ast.ReturnStmt)
		br, isBr := last.(*ast.BranchStmt)
		if (isRet || (isBr && br.Tok == token.BREAK)) && exits(ifs.Body) == total {
			w.soleExit[ifs] = true
		}
	}
}

// casTag names the pure function of a CompareAndSwap in a retry loop.  The new value must be
// derived, inside the loop (on every attempt), from the very pointer that is compared: a value
// computed before the loop, or from something else, is a different program (a retry would
// install a logger derived from a stale snapshot).
func (w *walker) casTag(c *ast.CallExpr) string {
	old, ok := c.Args[0].(*ast.Ident)
	if !ok || w.loopDefs == nil || !w.loopDefs[old.Name] {
		return "FComparedValueNotLoadedInLoop"
	}
	e := c.Args[1]
	for i := 0; i < 4; i++ {
		id, ok := e.(*ast.Ident)
		if !ok {
			break
		}
		if !w.loopDefs[id.Name] {
			return "FNewValueComputedOutsideLoop"
		}
		d, ok := w.defs[id.Name]
		if !ok {
			break
		}
		e = d
	}
	mentions := false
	ast.Inspect(e, func(n ast.Node) bool {
		if id, ok := n.(*ast.Ident); ok && id.Name == old.Name {
			mentions = true
		}
		return true
	})
	if !mentions {
		return "FNewValueNotFromLoaded"
	}
	return w.fnTag(e)
}

// fnTag names the pure function whose result is stored: the new logger expression (a local
// variable is followed to the expression assigned to it).
func (w *walker) fnTag(e ast.Expr) string {
	for i := 0; i < 4; i++ {
		id, ok := e.(*ast.Ident)
		if !ok {
			break
		}
		d, ok := w.defs[id.Name]
		if !ok {
			break
		}
		e = d
	}
	var b bytes.Buffer
	format.Node(&b, token.NewFileSet(), e)
	s := b.String()
	switch {
	case strings.Contains(s, "CustomLevelLogger(") && !strings.Contains(s, ".With("):
		return "FLevel"
	case strings.Contains(s, ".With(") && !strings.Contains(s, "CustomLevelLogger("):
		return "FWith"
	}
	return "FUnknown"
}

func instrs(w *walker) []string {
	var out []string
	for _, st := range w.sites {
		if st.skip {
			continue
		}
		switch st.method {
		case "Load":
			out = append(out, "ILoad")
		case "Store":
			out = append(out, "IStore "+st.tag)
		case "CompareAndSwap":
			if st.loop >= 0 && st.inCond {
				out = append(out, fmt.Sprintf("ICas %s %d", st.tag, st.loop))
			} else {
				out = append(out, "ICasOutsideRetryLoop "+st.tag)
			}
		default:
			out = append(out, "IUnsupported_"+st.method)
		}
	}
	for _, o := range w.other {
		out = append(out, "IUnsupported (* "+o+" *)")
	}
	return out
}

func main() {
	src := flag.String("src", "", "path of log/context_utils.go")
	gen := flag.String("gen", "", "write the Gallina program table here")
	instrument := flag.Bool("instrument", false, "rewrite the source in place with scheduler hooks")
	flag.Parse()
	fset := token.NewFileSet()
	f, err := parser.ParseFile(fset, *src, nil, parser.ParseComments)
	if err != nil {
		fmt.Fprintln(os.Stderr, err)
		os.Exit(1)
	}
	progs := map[string][]string{}
	nsites := 0
	for _, d := range f.Decls {
		fn, ok := d.(*ast.FuncDecl)
		if !ok || fn.Recv != nil || fn.Body == nil || (fn.Name.Name != "WithFields" && fn.Name.Name != "SetLevel") {
			continue
		}
		w := &walker{holder: holderVar(fn), defs: map[string]ast.Expr{}, soleExit: map[*ast.IfStmt]bool{},
			reload: map[*ast.ForStmt]int{}}
		w.stmts(fn.Body.List, -1)
		progs[fn.Name.Name] = instrs(w)
		if *instrument {
			for _, st := range w.sites {
				nsites++
				hook := func(e ast.Expr) ast.Expr {
					return &ast.CallExpr{Fun: ast.NewIdent("verifBefore"), Args: []ast.Expr{e}}
				}
				if n := len(st.call.Args); n > 0 {
					st.call.Args[n-1] = hook(st.call.Args[n-1])
				} else {
					sel := st.call.Fun.(*ast.SelectorExpr)
					sel.X = hook(sel.X)
				}
			}
			for _, c := range w.locks {
				nsites++
				sel := c.Fun.(*ast.SelectorExpr)
				helper, method := "verifUnlock", sel.Sel.Name
				switch sel.Sel.Name {
				case "Lock":
					helper, method = "verifLock", "TryLock"
				case "RLock":
					helper, method = "verifLock", "TryRLock"
				}
				c.Fun = ast.NewIdent(helper)
				c.Args = []ast.Expr{&ast.SelectorExpr{X: sel.X, Sel: ast.NewIdent(method)}}
			}
		}
	}
	if *gen != "" {
		var b strings.Builder
		b.WriteString("(* generated by xlate_logconc from log/context_utils.go — do not edit *)\n")
		b.WriteString("From Coq Require Import List.\nFrom GT Require Import Base.LogConc.\nFrom GT Require Import LogCtxModel.\nImport ListNotations.\n")
		for _, name := range []string{"WithFields", "SetLevel"} {
			p, ok := progs[name]
			if !ok {
				p = []string{"IFunctionNotFound"}
			}
			fmt.Fprintf(&b, "Definition gen_%s : list (instr fn) := [%s].\n", strings.ToLower(name), strings.Join(p, "; "))
		}
		if err := os.WriteFile(*gen, []byte(b.String()), 0o644); err != nil {
			fmt.Fprintln(os.Stderr, err)
			os.Exit(1)
		}
	}
	if *instrument {
		var b bytes.Buffer
		if err := format.Node(&b, fset, f); err != nil {
			fmt.Fprintln(os.Stderr, err)
			os.Exit(1)
		}
		if err := os.WriteFile(*src, b.Bytes(), 0o644); err != nil {
			fmt.Fprintln(os.Stderr, err)
			os.Exit(1)
		}
		fmt.Printf("instrumented %d sites\n", nsites)
	}
	for _, name := range []string{"WithFields", "SetLevel"} {
		fmt.Printf("%s: [%s]\n", name, strings.Join(progs[name], "; "))
	}
}
