// wrapper.go — second translator of xlate_logconc (-wrapgen FILE): reads log/custom_level.go
// (the whole package is parsed) and writes Gallina definitions of the level-override core
//
//	gen_enabled, gen_check, gen_with, gen_level   the methods of the wrapper type, translated
//	                                              from their bodies (receiver fields become
//	                                              parameters: the wrapped core, the minimum level)
//	gen_custom_level                              what CustomLevelLogger puts in front of a core
//	gen_wrapper_methods, gen_wrapper_embeds       the declared method set and the embedded types
//	                                              (what is NOT declared is promoted from the
//	                                              embedded core: Write, Sync)
//
// over the types of LogCtxModel.v.  ./check C18 proves them extensionally equal to the model's
// enabled / check / core_with / core_level / custom_level on Wrap (small tactic: unfold, case
// analysis on the comparisons, lia) - not syntactically: `c.minLevel <= l` and `l >= c.minLevel`,
// `if ok {return a}; return b` and `if !ok {return b}; return a`, a constructor helper or an
// inline composite literal, a closure bound to a local first ... all give equal functions.
// Anything outside the subset is written as a term that does not type-check.
package main

import (
	"fmt"
	"go/ast"
	"go/token"
	"os"
	"sort"
	"strings"
)

// wval: the translation of a Go expression - a Gallina term, or a function literal / named
// function that is only ever applied.
type wval struct {
	term string
	lit  *ast.FuncLit
	env  wenv
}

type wenv map[string]wval

func (e wenv) with(k string, v wval) wenv {
	c := wenv{}
	for a, b := range e {
		c[a] = b
	}
	c[k] = v
	return c
}

type wx struct {
	p        *pkgInfo
	wtype    string   // the wrapper type
	coreF    string   // its embedded core field
	levelF   string   // its level field
	recv     string   // receiver name of the method being translated
	problems []string // reasons for leaving the subset
	depth    int
}

func (w *wx) bad(format string, a ...any) string {
	s := fmt.Sprintf(format, a...)
	w.problems = append(w.problems, s)
	return "(UNSUPPORTED_" + sanitize(s) + ")"
}

func sanitize(s string) string {
	var b strings.Builder
	for _, r := range s {
		if (r >= 'a' && r <= 'z') || (r >= 'A' && r <= 'Z') || (r >= '0' && r <= '9') {
			b.WriteRune(r)
		} else {
			b.WriteRune('_')
		}
	}
	return b.String()
}

// findWrapper: the struct type that embeds zapcore.Core and has one zapcore.Level field.
func (w *wx) findWrapper() (embeds []string, ok bool) {
	for _, f := range w.p.files {
		for _, d := range f.Decls {
			gd, isGen := d.(*ast.GenDecl)
			if !isGen {
				continue
			}
			for _, sp := range gd.Specs {
				ts, isT := sp.(*ast.TypeSpec)
				if !isT {
					continue
				}
				st, isS := ts.Type.(*ast.StructType)
				if !isS {
					continue
				}
				core, level := "", ""
				var emb []string
				for _, fl := range st.Fields.List {
					sel, isSel := fl.Type.(*ast.SelectorExpr)
					if !isSel {
						continue
					}
					q := src(sel)
					if len(fl.Names) == 0 {
						emb = append(emb, q)
						if sel.Sel.Name == "Core" {
							core = "Core"
						}
					} else if sel.Sel.Name == "Core" && len(fl.Names) == 1 {
						core = fl.Names[0].Name // a named field: nothing is promoted then
					}
					if sel.Sel.Name == "Level" && len(fl.Names) == 1 {
						level = fl.Names[0].Name
					}
				}
				if core != "" && level != "" {
					w.wtype, w.coreF, w.levelF = ts.Name.Name, core, level
					return emb, true
				}
			}
		}
	}
	return nil, false
}

func (w *wx) methodsOf() map[string]*ast.FuncDecl {
	out := map[string]*ast.FuncDecl{}
	for _, f := range w.p.files {
		for _, d := range f.Decls {
			fn, ok := d.(*ast.FuncDecl)
			if !ok || fn.Recv == nil || len(fn.Recv.List) != 1 || fn.Body == nil {
				continue
			}
			t := fn.Recv.List[0].Type
			if st, ok := t.(*ast.StarExpr); ok {
				t = st.X
			}
			if id, ok := t.(*ast.Ident); ok && id.Name == w.wtype {
				out[fn.Name.Name] = fn
			}
		}
	}
	return out
}

var cmpOps = map[token.Token]string{token.LEQ: "<=?", token.GEQ: ">=?", token.LSS: "<?", token.GTR: ">?", token.EQL: "=?"}

// tr translates an expression to a Gallina term (of type level, bool, core, list core ...).
func (w *wx) tr(ex ast.Expr, e wenv) wval {
	switch t := ex.(type) {
	case *ast.ParenExpr:
		return w.tr(t.X, e)
	case *ast.Ident:
		if v, ok := e[t.Name]; ok {
			return v
		}
		switch t.Name {
		case "true", "false":
			return wval{term: t.Name}
		}
		return wval{term: w.bad("unknown identifier %s", t.Name)}
	case *ast.SelectorExpr:
		if id, ok := t.X.(*ast.Ident); ok && id.Name == w.recv {
			switch t.Sel.Name {
			case w.levelF:
				return wval{term: "r_min"}
			case w.coreF:
				return wval{term: "r_core"}
			}
		}
		if id, ok := t.X.(*ast.Ident); ok && t.Sel.Name == "Level" {
			if v, ok := e[id.Name+".Level"]; ok { // ent.Level
				return v
			}
		}
		return wval{term: w.bad("selector %s", src(t))}
	case *ast.UnaryExpr:
		switch t.Op {
		case token.NOT:
			return wval{term: "(negb " + w.tr(t.X, e).term + ")"}
		case token.AND:
			return w.tr(t.X, e)
		}
	case *ast.BinaryExpr:
		l, r := w.tr(t.X, e).term, w.tr(t.Y, e).term
		if op, ok := cmpOps[t.Op]; ok {
			return wval{term: "(" + l + " " + op + " " + r + ")%Z"}
		}
		switch t.Op {
		case token.NEQ:
			return wval{term: "(negb (" + l + " =? " + r + ")%Z)"}
		case token.LAND:
			return wval{term: "(" + l + " && " + r + ")%bool"}
		case token.LOR:
			return wval{term: "(" + l + " || " + r + ")%bool"}
		}
	case *ast.FuncLit:
		return wval{lit: t, env: e}
	case *ast.CompositeLit:
		if id, ok := t.Type.(*ast.Ident); ok && id.Name == w.wtype {
			core, lvl := "", ""
			for i, el := range t.Elts {
				if kv, ok := el.(*ast.KeyValueExpr); ok {
					switch src(kv.Key) {
					case w.coreF:
						core = w.tr(kv.Value, e).term
					case w.levelF:
						lvl = w.tr(kv.Value, e).term
					}
				} else if i == 0 {
					core = w.tr(el, e).term
				} else if i == 1 {
					lvl = w.tr(el, e).term
				}
			}
			if core != "" && lvl != "" {
				return wval{term: "(Wrap " + core + " " + lvl + ")"}
			}
		}
		return wval{term: w.bad("composite literal %s", src(t))}
	case *ast.CallExpr:
		return w.call(t, e)
	}
	return wval{term: w.bad("expression %s", src(ex))}
}

func (w *wx) call(c *ast.CallExpr, e wenv) wval {
	w.depth++
	defer func() { w.depth-- }()
	if w.depth > 10 {
		return wval{term: w.bad("call depth")}
	}
	switch f := c.Fun.(type) {
	case *ast.SelectorExpr:
		recvIsSelf := false
		if id, ok := f.X.(*ast.Ident); ok && id.Name == w.recv {
			recvIsSelf = true
		}
		switch {
		case recvIsSelf && f.Sel.Name == "Enabled" && len(c.Args) == 1:
			return wval{term: "(gen_enabled r_core r_min " + w.tr(c.Args[0], e).term + ")"}
		case recvIsSelf && f.Sel.Name == "Level" && len(c.Args) == 0:
			return wval{term: "(gen_level r_core r_min)"}
		case f.Sel.Name == "AddCore" && len(c.Args) == 2:
			// CheckedEntry.AddCore(ent, core): the cores that will be written to
			if id, ok := c.Args[1].(*ast.Ident); ok && id.Name == w.recv {
				return wval{term: "(" + w.tr(f.X, e).term + " ++ [Wrap r_core r_min])"}
			}
			return wval{term: "(" + w.tr(f.X, e).term + " ++ [" + w.tr(c.Args[1], e).term + "])"}
		case f.Sel.Name == "With" && len(c.Args) == 1:
			// the With of the embedded core
			return wval{term: "(core_with " + w.tr(f.X, e).term + " " + w.tr(c.Args[0], e).term + ")"}
		case f.Sel.Name == "Enabled" && len(c.Args) == 1:
			return wval{term: "(enabled " + w.tr(f.X, e).term + " " + w.tr(c.Args[0], e).term + ")"}
		case src(f) == "zap.WrapCore" && len(c.Args) == 1:
			return w.tr(c.Args[0], e) // the option IS the function it carries
		case f.Sel.Name == "WithOptions" && len(c.Args) == 1:
			// logger.WithOptions(WrapCore(f)): the logger's core becomes f(core)
			return w.apply(w.tr(c.Args[0], e), []wval{w.tr(f.X, e)}, c)
		}
	case *ast.Ident:
		if v, ok := e[f.Name]; ok && v.lit != nil {
			args := make([]wval, len(c.Args))
			for i, a := range c.Args {
				args[i] = w.tr(a, e)
			}
			return w.apply(v, args, c)
		}
		if decl := w.p.funcs[f.Name]; decl != nil {
			args := make([]wval, len(c.Args))
			for i, a := range c.Args {
				args[i] = w.tr(a, e)
			}
			ne := wenv{}
			i := 0
			for _, prm := range decl.Type.Params.List {
				for _, n := range prm.Names {
					if i < len(args) {
						ne[n.Name] = args[i]
					}
					i++
				}
			}
			return w.body(decl.Body.List, ne)
		}
	}
	return wval{term: w.bad("call %s", src(c))}
}

func (w *wx) apply(fv wval, args []wval, at ast.Node) wval {
	if fv.lit == nil {
		return wval{term: w.bad("application of something that is not a function literal at %s", src(at))}
	}
	ne := fv.env
	i := 0
	for _, prm := range fv.lit.Type.Params.List {
		for _, n := range prm.Names {
			if i < len(args) {
				ne = ne.with(n.Name, args[i])
			}
			i++
		}
	}
	return w.body(fv.lit.Body.List, ne)
}

// body translates a function body: local bindings, `if c { return a }` chains, a final return.
func (w *wx) body(list []ast.Stmt, e wenv) wval {
	if len(list) == 0 {
		return wval{term: w.bad("function body without a return")}
	}
	switch st := list[0].(type) {
	case *ast.ReturnStmt:
		if len(st.Results) == 1 {
			return w.tr(st.Results[0], e)
		}
	case *ast.AssignStmt:
		if len(st.Lhs) == 1 && len(st.Rhs) == 1 && (st.Tok == token.DEFINE || st.Tok == token.ASSIGN) {
			if id, ok := st.Lhs[0].(*ast.Ident); ok {
				return w.body(list[1:], e.with(id.Name, w.tr(st.Rhs[0], e)))
			}
		}
	case *ast.IfStmt:
		if st.Init == nil {
			cond := w.tr(st.Cond, e).term
			a := w.body(st.Body.List, e)
			var b wval
			switch el := st.Else.(type) {
			case nil:
				b = w.body(list[1:], e)
			case *ast.BlockStmt:
				b = w.body(el.List, e)
			default:
				b = wval{term: w.bad("else-if")}
			}
			if a.lit == nil && b.lit == nil {
				return wval{term: "(if " + cond + " then " + a.term + " else " + b.term + ")"}
			}
		}
	}
	return wval{term: w.bad("statement %s", src(list[0]))}
}

// wrapperGen writes LogWrapGen.v.
func wrapperGen(p *pkgInfo, out string) error {
	w := &wx{p: p}
	embeds, ok := w.findWrapper()
	var b strings.Builder
	b.WriteString("(* generated by xlate_logconc -wrapgen from package log - do not edit *)\n")
	b.WriteString("From Coq Require Import ZArith List Bool String.\nFrom GT Require Import Base.LogConc.\nFrom GT Require Import LogCtxModel.\nImport ListNotations.\nLocal Open Scope string_scope.\n")
	if !ok {
		b.WriteString("Definition gen_wrapper_not_found : unit := NO_STRUCT_EMBEDDING_zapcore_Core_WITH_A_Level_FIELD.\n")
		return os.WriteFile(out, []byte(b.String()), 0o644)
	}
	ms := w.methodsOf()
	var names []string
	for n := range ms {
		names = append(names, n)
	}
	sort.Strings(names)
	q := func(l []string) string {
		o := make([]string, len(l))
		for i, s := range l {
			o[i] = "\"" + s + "\""
		}
		return "[" + strings.Join(o, "; ") + "]"
	}
	fmt.Fprintf(&b, "Definition gen_wrapper_methods : list string := %s.\n", q(names))
	fmt.Fprintf(&b, "Definition gen_wrapper_embeds : list string := %s.\n", q(embeds))
	// a method body with the receiver's fields as parameters r_core r_min
	method := func(name string, params func(fn *ast.FuncDecl) (string, wenv), typ string, absent string) {
		fn := ms[name]
		if fn == nil {
			fmt.Fprintf(&b, "Definition gen_%s %s.\n", strings.ToLower(name), absent)
			return
		}
		w.recv = ""
		if len(fn.Recv.List[0].Names) == 1 {
			w.recv = fn.Recv.List[0].Names[0].Name
		}
		sig, e := params(fn)
		body := w.body(fn.Body.List, e)
		fmt.Fprintf(&b, "Definition gen_%s (r_core : core) (r_min : level)%s : %s :=\n  %s.\n", strings.ToLower(name), sig, typ, body.term)
	}
	pname := func(fn *ast.FuncDecl, i int) string {
		k := 0
		for _, prm := range fn.Type.Params.List {
			for _, n := range prm.Names {
				if k == i {
					return n.Name
				}
				k++
			}
		}
		return "_"
	}
	// Level first: Enabled may call it
	method("Level", func(fn *ast.FuncDecl) (string, wenv) { return "", wenv{} }, "level",
		"(r_core : core) (r_min : level) : level := core_level r_core (* no Level method: zapcore.LevelOf falls back *)")
	method("Enabled", func(fn *ast.FuncDecl) (string, wenv) {
		return " (a_lvl : level)", wenv{pname(fn, 0): {term: "a_lvl"}}
	}, "bool", "(r_core : core) (r_min a_lvl : level) : bool := enabled r_core a_lvl (* promoted *)")
	method("Check", func(fn *ast.FuncDecl) (string, wenv) {
		// Check(ent, ce): ent.Level is the level of the entry; ce starts without cores
		return " (a_lvl : level)", wenv{pname(fn, 0) + ".Level": {term: "a_lvl"}, pname(fn, 1): {term: "([] : list core)"}}
	}, "list core", "(r_core : core) (r_min a_lvl : level) : list core := check r_core a_lvl (* promoted *)")
	method("With", func(fn *ast.FuncDecl) (string, wenv) {
		return " (a_fields : list field)", wenv{pname(fn, 0): {term: "a_fields"}}
	}, "core", "(r_core : core) (r_min : level) (a_fields : list field) : core := core_with r_core a_fields (* promoted: the wrapper is lost *)")
	// CustomLevelLogger(logger, level): the logger is represented by its core
	if fn := p.funcs["CustomLevelLogger"]; fn != nil && fn.Type.Params.NumFields() == 2 {
		w.recv = ""
		e := wenv{pname(fn, 0): {term: "a_core"}, pname(fn, 1): {term: "a_lvl"}}
		fmt.Fprintf(&b, "Definition gen_custom_level (a_core : core) (a_lvl : level) : core :=\n  %s.\n", w.body(fn.Body.List, e).term)
	} else {
		b.WriteString("Definition gen_custom_level : unit := NO_FUNCTION_CustomLevelLogger.\n")
	}
	for _, pr := range w.problems {
		fmt.Fprintf(&b, "(* outside the subset: %s *)\n", strings.ReplaceAll(pr, "*)", "* )"))
	}
	return os.WriteFile(out, []byte(b.String()), 0o644)
}
