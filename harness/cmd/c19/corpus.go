package main

import (
	"fmt"

	"gtverif/internal/gal"
)

// Fixed corpus: the DESIGN §5 witness and the shapes found while building the check.

func m(name string, ps []gpar, rs []gpar) gmeth { return gmeth{Name: name, Ps: ps, Rs: rs} }
func ps(l ...gpar) []gpar                       { return l }

func leafStruct(name string, methods ...string) gstruct {
	s := gstruct{Name: name}
	for _, n := range methods {
		s.Methods = append(s.Methods, m(n, nil, nil))
	}
	return s
}

func emb(p *prog, names ...string) []gembed {
	var out []gembed
	for _, n := range names {
		out = append(out, gembed{T: named(self(p), n)})
	}
	return out
}

func corpus() []*prog {
	var out []*prog
	ren := map[string]string{pRen: "rr", pV2: "v2"}
	renB := map[string]string{pPlain: "pl", "context": "cx"}
	newp := func(name string) *prog {
		p := &prog{Name: name, Kind: "corpus", RenameA: ren, RenameB: renB, Targets: []string{"Original"}}
		out = append(out, p)
		return p
	}

	// c0: a user parameter called arg0 next to an unnamed one (pinned code: `arg0, arg0`)
	p := newp("c0")
	p.Structs = []gstruct{{Name: "Original", Methods: []gmeth{
		m("M", ps(par("arg0", basic("int")), par("_", basic("string"))), nil),
	}}}

	// c1: generated input name against a user-chosen result name; ctx/err choices taken
	p = newp("c1")
	p.Structs = []gstruct{{Name: "Original", Methods: []gmeth{
		m("M", ps(par("_", basic("int"))), ps(par("arg0", basic("int")))),
		m("N", ps(par("ctx", tCtx), par("_", tCtx), par("_", basic("int"))),
			ps(par("ret1", basic("int")), par("_", basic("int")), par("_", tErr))),
		m("O", ps(par("_", tCtx), par("ctx", basic("int")), par("ctx0", basic("int"))),
			ps(par("err", basic("int")), par("err0", basic("bool")), par("_", tErr))),
		m("P", ps(par("", basic("int")), par("", basic("int"))), ps(par("arg1", basic("int")), par("ret0", basic("int")), par("_", basic("int")))),
	}}}

	// c2: the repository's own fixture shape: alias, renamed import, directory != package name
	p = newp("c2")
	p.Structs = []gstruct{{Name: "Original", Methods: []gmeth{
		m("MethodTakesAlias", ps(par("_", named(self(p), "LocSibAlias")), par("_", named(pV2, "V")),
			par("_", named(pOdd, "Odd"))), nil),
		m("Generic", ps(par("", named(pRen, "Gen", basic("string"), slice(named(pPlain, "G", ptr(named(pV2, "Opt", tErr))))))),
			ps(par("", mapOf(basic("string"), fn(ps(par("", tCtx), par("", slice(basic("int")))), true, ps(par("", tErr))))))),
		{Name: "Second", File: 1, Ps: ps(par("c", tCtx), par("t", named(pPlain, "T")), par("x", named(pThird, "X"))), Rs: ps(par("", tErr))},
	}}}

	// c3: S1 — one Foo under F (through X), two under G (Y, Z): ambiguous in Go, three at depth 2
	p = newp("c3")
	p.Structs = []gstruct{leafStruct("X", "Foo"), leafStruct("Y", "Foo"), leafStruct("Z", "Foo"),
		{Name: "F", Embeds: emb(p, "X")}, {Name: "G", Embeds: emb(p, "Y", "Z")},
		{Name: "Original", Embeds: emb(p, "F", "G"), Methods: []gmeth{m("Own", nil, nil)}}}

	// c4: S2 — Foo at depth 1 under A, ambiguous at depth 2 under G: Go promotes A.Foo
	p = newp("c4")
	p.Structs = []gstruct{leafStruct("A", "Foo"), leafStruct("Y", "Foo"), leafStruct("Z", "Foo"),
		{Name: "G", Embeds: emb(p, "Y", "Z")},
		{Name: "Original", Embeds: emb(p, "A", "G"), Methods: []gmeth{m("Own", nil, nil)}}}

	// c5: S3 — Foo at depth 1 under A and at depth 2 under F: defined under two embedded fields
	p = newp("c5")
	p.Structs = []gstruct{leafStruct("A", "Foo"), leafStruct("X", "Foo", "bar"),
		{Name: "F", Embeds: emb(p, "X")},
		{Name: "Original", Embeds: emb(p, "A", "F"), Methods: []gmeth{m("Own", nil, nil), m("own2", nil, nil)}}}

	// c6: sibling embedding with on-demand imports (plain.E mentions third.X; a.go imports neither)
	p = newp("c6")
	p.Structs = []gstruct{{Name: "Original",
		Embeds:  []gembed{{T: named(pPlain, "E"), Ptr: true}, {T: named(pPlain, "E2")}, {T: named(pOdd, "OddI")}},
		Methods: []gmeth{m("Plain", nil, nil)}}}

	// c9-c11: the same method name with different signatures under three or more embedded fields
	// at different depths (c9 = Session{Conn; Reader; Writer}: Close at depth 1, 2, 2)
	out = append(out,
		embedNameProgram(gal.NewRand(9), "c9", "corpus", map[string][]int{"Close": {1, 2, 2}}),
		embedNameProgram(gal.NewRand(10), "c10", "corpus", map[string][]int{"Close": {2, 2, 1}, "Get": {1, 1, 2}, "foo": {2, 0, 2}}),
		embedNameProgram(gal.NewRand(11), "c11", "corpus", map[string][]int{"Close": {2, 1, 2, 2, 2}, "Run": {1, 2, 1, 2, 1}}))
	// c12 (outside the quantifier, compared with the model only): three levels deep the merge takes
	// Z.Foo(string) although Go promotes A.Foo() — see C19_example_selects_needs_two_levels
	p = newp("c12")
	p.Kind = "corpus-ood"
	fooOf := func(t string) gmeth { return m("Foo", ps(par("", basic(t))), nil) }
	p.Structs = []gstruct{leafStruct("A", "Foo"), {Name: "X", Methods: []gmeth{fooOf("int")}},
		{Name: "F", Embeds: emb(p, "X")}, {Name: "G", Embeds: emb(p, "A", "F")},
		{Name: "Z", Methods: []gmeth{fooOf("string")}}, {Name: "Y", Embeds: emb(p, "Z")}, {Name: "H", Embeds: emb(p, "Y")},
		{Name: "Original", Embeds: emb(p, "G", "H"), Methods: []gmeth{m("Own", nil, nil)}}}
	// c13-c15: exactly one embedded field plus plain fields named like methods of the embedded type
	// (and of the type one level further down): a field hides the promoted method
	p = newp("c13")
	p.Structs = []gstruct{{Name: "L", Methods: []gmeth{m("Get", nil, nil), m("Deep", nil, nil)}},
		{Name: "E", Embeds: emb(p, "L"), Methods: []gmeth{m("Foo", nil, nil), m("Bar", nil, nil)}},
		{Name: "Original", Embeds: emb(p, "E"), Methods: []gmeth{m("Own", nil, nil)},
			Fields: []gfield{{Name: "Foo", T: fn(nil, false, nil)}, {Name: "Deep", T: basic("int")}}}}
	out = append(out, fieldShadowProgram(gal.NewRand(14), "c14", "corpus"), fieldShadowProgram(gal.NewRand(15), "c15", "corpus"))
	// c16-c23: an embedded interface that itself embeds interfaces with overlapping methods of identical
	// signature (one class per entry, see ifaceUnionProgram): the shared method is ONE method
	for v := 0; v < 8; v++ {
		out = append(out, ifaceUnionProgram(gal.NewRand(uint64(16+v)), fmt.Sprintf("c%d", 16+v), "corpus", v))
	}
	// c24, c25: embedded types whose package is not loaded — via.Via embeds far.Deep2 and no generated
	// package imports far; the predeclared error has no package at all
	p = newp("c24")
	p.Structs = []gstruct{{Name: "Original", Embeds: []gembed{{T: named(pVia, "Via")}, {T: named(pVia, "ViaI")}},
		Methods: []gmeth{m("Own", nil, nil)}}}
	p = newp("c25")
	p.Structs = []gstruct{{Name: "E", Embeds: []gembed{{T: tErr}}, Methods: []gmeth{m("Code", nil, ps(par("", basic("int"))))}},
		{Name: "Original", Embeds: []gembed{{T: named(self(p), "E"), Ptr: true}}, Methods: []gmeth{m("Own", nil, nil)}}}
	p.Targets = []string{"Original", "E"}
	// c26-c32: an on-demand import whose package name is bound already (one class per entry, see
	// aliasClashProgram; c26 is the audit's reproducer: plain util = a/util, embedded uses.UE brings b/util)
	for v := 0; v < 7; v++ {
		out = append(out, aliasClashProgram(gal.NewRand(uint64(26+v)), fmt.Sprintf("c%d", 26+v), "corpus", v))
	}
	// c33, c34: one path imported twice by a.go (ImportHandler.shadowed), an on-demand import named like
	// the spec that was set aside
	out = append(out, aliasClashProgram(gal.NewRand(33), "c33", "corpus", 7), aliasClashProgram(gal.NewRand(34), "c34", "corpus", 8))
	// c35-c37: the ORDER in which imports become active: the on-demand import is rendered before the file's
	// own import of the same name is activated (c35, c36), and the reverse (c37)
	for v := 9; v <= 11; v++ {
		out = append(out, aliasClashProgram(gal.NewRand(uint64(26+v)), fmt.Sprintf("c%d", 26+v), "corpus", v))
	}
	// c39, c40: embedded INSTANTIATED generic types (value and pointer, local and sibling) and a defined
	// non-struct type, directly and two levels deep: the promoted methods mention the type arguments
	p = newp("c39")
	p.Structs = []gstruct{{Name: "Original", Embeds: []gembed{{T: named(self(p), "LocPair", basic("string"), named(pV2, "V")), Ptr: true},
		{T: named(pPlain, "G", named(self(p), "Loc"))}, {T: named(self(p), "LocInts")}},
		Methods: []gmeth{m("Own", nil, nil)}}}
	p = newp("c40")
	p.Structs = []gstruct{{Name: "E", Embeds: []gembed{{T: named(self(p), "LocG", ptr(named(pRen, "R")))}, {T: named(pPlain, "G", slice(named(pOdd, "Odd"))), Ptr: true}},
		Methods: []gmeth{m("OfE", nil, nil)}},
		{Name: "Original", Embeds: []gembed{{T: named(self(p), "E"), Ptr: true}, {T: named(self(p), "LocInts"), Ptr: true}}, Methods: []gmeth{m("Own", nil, nil)}}}
	p.Targets = []string{"Original", "E"}
	// c38: user names that look like "no name" or like something else: underscore-prefixed, predeclared
	// identifiers, non-ASCII letters — all of them are kept
	p = newp("c38")
	p.Structs = []gstruct{{Name: "Original", Methods: []gmeth{
		m("Unused", ps(par("_ctx", tCtx), par("_id", basic("int")), par("__", basic("string")), par("_", basic("bool"))),
			ps(par("_0", basic("int")), par("_err", tErr))),
		m("Predeclared", ps(par("len", basic("int")), par("nil", basic("string")), par("true", basic("bool")), par("string", basic("int")), par("iota", basic("int"))),
			ps(par("error", basic("int")), par("any", tErr))),
		m("Letters", ps(par("ñ", basic("int")), par("名前", basic("string")), par("_", basic("int")), par("Ωmega", slice(basic("byte")))), nil),
		m("Mixed", ps(par("_arg0", basic("int")), par("_", basic("int")), par("x_", basic("int"))), ps(par("_", basic("int")), par("_ret1", tErr))),
	}}}
	// c7, c8: one method per regression-prone shape (see shapeProgram), fixed seeds
	out = append(out, shapeProgram(gal.NewRand(7), "c7", "corpus"), shapeProgram(gal.NewRand(8), "c8", "corpus"))
	return out
}
