package main

import (
	"math/rand/v2"
	"sort"
)

// Random programs inside the property's quantifier.

var (
	pPlain = modPath + "/sib/plain"
	pRen   = modPath + "/sib/ren"
	pV2    = modPath + "/sib/v2"
	pThird = modPath + "/sib/third"
	pOdd   = modPath + "/sib/odd-dir"
	pVia   = modPath + "/sib/via"
	pAUtil = modPath + "/sib/a/util"
	pBUtil = modPath + "/sib/b/util"
	pUses  = modPath + "/sib/uses"
)

var basics = []string{"int", "string", "bool", "float64", "byte", "rune", "int64", "uint32", "uintptr", "complex128",
	"int8", "int16", "int32", "uint", "uint8", "uint16", "uint64", "float32", "complex64", "int", "string", "bool"}

var exportedNames = []string{"Foo", "Bar", "Baz", "Get", "Set", "Do", "Run", "Close", "Plain", "DeepOnly"}
var unexportedNames = []string{"foo", "bar", "helper", "get"}

// user-chosen parameter names; the second half equals what the generator itself would choose
var plainParamNames = []string{"a", "b", "x", "s", "n", "in", "out", "v2", "π"}
var trickyParamNames = []string{"arg0", "arg1", "arg2", "ret0", "ret1", "ctx", "err", "arg", "ret", "ctx0", "err0", "arg00", "ret2",
	// underscore-prefixed names (the spelling linters accept for unused parameters) are names, not `_`
	"_x", "_ctx", "_id", "__", "_0", "_err", "_arg0", "x_",
	// predeclared identifiers and keyword look-alikes are legal parameter names; so are non-ASCII letters
	"len", "nil", "true", "iota", "append", "any", "string", "error", "funcs", "type_", "Map", "range1", "ñ", "名前", "Ωmega"}

type gen struct {
	r    *rand.Rand
	self string
}

func pick[T any](r *rand.Rand, xs []T) T { return xs[r.IntN(len(xs))] }

// comparable type (map keys, arguments of K comparable)
func (g *gen) keyTy() *gty {
	switch g.r.IntN(7) {
	case 0:
		return basic("int")
	case 1:
		return basic("string")
	case 2:
		return named(g.self, "Loc")
	case 3:
		return ptr(named(pPlain, "T"))
	case 4:
		return named(pPlain, "T")
	case 5:
		return array(2, basic("byte"))
	default:
		return named(pV2, "V")
	}
}

func (g *gen) namedTy(depth int) *gty {
	switch g.r.IntN(19) {
	case 0:
		return named(g.self, "Loc")
	case 1:
		return named(g.self, "LocG", g.ty(depth+1))
	case 2:
		return named(g.self, "LocPair", g.keyTy(), g.ty(depth+1))
	case 3:
		return named(g.self, "LocAlias")
	case 4:
		return named(g.self, "LocSibAlias")
	case 5:
		return named(g.self, "LocErr")
	case 6:
		return named(g.self, "LocFn")
	case 7:
		return named(pPlain, "T")
	case 8:
		return named(pPlain, "G", g.ty(depth+1))
	case 9:
		return named(pPlain, "A")
	case 10:
		return named(pPlain, "I")
	case 11:
		return named(pRen, "R")
	case 12:
		return named(pRen, "Gen", g.keyTy(), g.ty(depth+1))
	case 13:
		return named(pV2, "V")
	case 14:
		return named(pV2, "Opt", g.ty(depth+1))
	case 15:
		return named(pOdd, "Odd")
	case 16:
		return named(pThird, "X")
	case 17:
		return named(pAUtil, "X")
	default:
		return tAny
	}
}

func (g *gen) ty(depth int) *gty {
	k := g.r.IntN(100)
	if depth >= 3 {
		if k < 50 {
			return basic(pick(g.r, basics))
		}
		return pick(g.r, []*gty{named(g.self, "Loc"), named(pPlain, "T"), named(pRen, "R"), named(pV2, "V"), tErr, tCtx, tAny})
	}
	switch {
	case k < 26:
		return basic(pick(g.r, basics))
	case k < 56:
		return g.namedTy(depth)
	case k < 64:
		return ptr(pick(g.r, []*gty{named(g.self, "Loc"), named(pPlain, "T"), named(pPlain, "Err"), named(pRen, "R"), named(pOdd, "Odd"), basic("int"), named(g.self, "LocG", g.ty(depth+1))}))
	case k < 73:
		return slice(g.ty(depth + 1))
	case k < 77:
		if g.r.IntN(3) == 0 {
			return arrayConst(g.self, "LocSize", 3, g.ty(depth+1))
		}
		return array(int64(g.r.IntN(5)), g.ty(depth+1))
	case k < 84:
		return mapOf(g.keyTy(), g.ty(depth+1))
	case k < 91:
		ps, v, rs := g.sig(depth+1, 2)
		return fn(ps, v, rs)
	case k < 95:
		return tCtx
	default:
		return tErr
	}
}

// names assigns parameter names to a tuple: all unnamed, or each `_` / user-chosen (distinct
// over the whole signature, as Go demands).
func (g *gen) names(n int, taken map[string]bool, unnamedPct int) []string {
	out := make([]string, n)
	if n == 0 || g.r.IntN(100) < unnamedPct {
		return out
	}
	for i := range out {
		switch k := g.r.IntN(100); {
		case k < 25:
			out[i] = "_"
		default:
			pool := plainParamNames
			if k < 70 {
				pool = trickyParamNames
			}
			nm := pick(g.r, pool)
			for try := 0; taken[nm] && try < 8; try++ {
				nm = pick(g.r, append(append([]string{}, plainParamNames...), trickyParamNames...))
			}
			if taken[nm] {
				nm = "_"
			} else {
				taken[nm] = true
			}
			out[i] = nm
		}
	}
	return out
}

func (g *gen) sig(depth, maxIn int) ([]gpar, bool, []gpar) {
	nIn := g.r.IntN(maxIn + 1)
	nOut := g.r.IntN(4)
	if depth > 0 {
		nOut = g.r.IntN(3)
	}
	taken := map[string]bool{}
	inNames := g.names(nIn, taken, 40)
	outNames := g.names(nOut, taken, 60)
	ps := make([]gpar, nIn)
	for i := range ps {
		t := g.ty(depth + 1)
		if i == 0 && g.r.IntN(100) < 30 {
			t = pick(g.r, []*gty{tCtx, tCtx, named(g.self, "LocCtx")})
		}
		ps[i] = par(inNames[i], t)
	}
	variadic := nIn > 0 && g.r.IntN(100) < 15
	if variadic {
		ps[nIn-1].T = slice(g.ty(depth + 2))
	}
	rs := make([]gpar, nOut)
	for i := range rs {
		t := g.ty(depth + 1)
		if i == nOut-1 && g.r.IntN(100) < 45 {
			t = pick(g.r, []*gty{tErr, tErr, tErr, ptr(named(pPlain, "Err")), named(g.self, "LocErr")})
		}
		rs[i] = par(outNames[i], t)
	}
	return ps, variadic, rs
}

func (g *gen) methods(n int, allowPrivate bool, secondFile bool) []gmeth {
	used := map[string]bool{}
	var out []gmeth
	for len(out) < n {
		nm := pick(g.r, exportedNames)
		if allowPrivate && g.r.IntN(100) < 22 {
			nm = pick(g.r, unexportedNames)
		}
		if used[nm] {
			continue
		}
		used[nm] = true
		ps, v, rs := g.sig(0, 4)
		m := gmeth{Name: nm, PtrRecv: g.r.IntN(2) == 0, Ps: ps, Variadic: v, Rs: rs}
		if secondFile && g.r.IntN(100) < 18 {
			m.File = 1
		}
		out = append(out, m)
	}
	return out
}

func genProgram(r *rand.Rand, name string) *prog {
	p := &prog{Name: name, Kind: "random"}
	g := &gen{r: r, self: self(p)}
	p.RenameA = map[string]string{pRen: "rr"}
	if r.IntN(3) == 0 {
		p.RenameA["context"] = "stdctx"
	}
	if r.IntN(2) == 0 {
		p.RenameA[pV2] = "v2"
	}
	if r.IntN(3) == 0 {
		p.RenameA[pThird] = "t3"
	}
	if r.IntN(4) == 0 {
		p.RenameA[pOdd] = "odd"
	}
	p.RenameB = map[string]string{pPlain: "pl", pV2: "vv", pThird: "thr", "context": "cx"}

	// leaves (height 0), local
	type cand struct {
		t      *gty
		ptrOK  bool
		height int
	}
	var leaves, mids []cand
	nLeaf := r.IntN(3)
	for i := 0; i < nLeaf; i++ {
		s := gstruct{Name: "L" + string(rune('1'+i)), Methods: g.methods(1+r.IntN(3), true, false)}
		p.Structs = append(p.Structs, s)
		leaves = append(leaves, cand{named(g.self, s.Name), true, 0})
		p.Targets = append(p.Targets, s.Name)
	}
	if r.IntN(3) == 0 {
		it := giface{Name: "I1"}
		for _, m := range g.methods(1+r.IntN(2), true, false) {
			m.PtrRecv = false
			it.Methods = append(it.Methods, m)
		}
		p.Ifaces = append(p.Ifaces, it)
		leaves = append(leaves, cand{named(g.self, "I1"), false, 0})
	}
	if r.IntN(4) == 0 {
		// an interface that embeds interfaces: the local one (if any) and sibling ones whose method
		// names do not collide with it (a shared name needs an identical signature — the siblings'
		// Close() error is such a one; arbitrary overlaps are ifaceUnionProgram's job)
		it := giface{Name: "I2"}
		used := map[string]bool{}
		i1close := false
		if len(p.Ifaces) > 0 {
			it.Embeds = append(it.Embeds, named(g.self, "I1"))
			for _, m := range p.Ifaces[0].Methods {
				used[m.Name] = true
				i1close = i1close || m.Name == "Close"
			}
		}
		for _, c := range []struct {
			t  *gty
			ms []string
		}{{named(pPlain, "I"), []string{"Get", "Close"}}, {named(pRen, "RI"), []string{"Run"}},
			{named(pOdd, "OddI"), []string{"Odd"}}, {named(pPlain, "ReadWriter"), []string{"Close", "Read", "Write", "Peer"}},
			{named(pPlain, "Closer"), []string{"Close"}}} {
			ok := r.IntN(2) == 0
			for _, n := range c.ms {
				if used[n] && (n != "Close" || i1close) {
					ok = false
				}
			}
			if !ok {
				continue
			}
			for _, n := range c.ms {
				used[n] = true
			}
			it.Embeds = append(it.Embeds, c.t)
		}
		if len(it.Embeds) > 0 {
			p.Ifaces = append(p.Ifaces, it)
			leaves = append(leaves, cand{named(g.self, "I2"), false, 0})
		}
	}
	// instantiated generic types (their promoted methods carry the type ARGUMENTS) and a defined
	// non-struct type
	targ := func() *gty {
		return pick(r, []*gty{basic("string"), basic("int"), named(pV2, "V"), named(pPlain, "T"), ptr(named(pRen, "R")),
			named(g.self, "Loc"), slice(named(pOdd, "Odd")), tErr, named(g.self, "LocG", basic("byte"))})
	}
	if r.IntN(2) == 0 {
		leaves = append(leaves, cand{named(g.self, "LocG", targ()), true, 0}, cand{named(g.self, "LocPair", g.keyTy(), targ()), true, 0},
			cand{named(pPlain, "G", targ()), true, 0}, cand{named(g.self, "LocInts"), true, 0})
	}
	leaves = append(leaves,
		cand{named(pPlain, "E"), true, 0}, cand{named(pPlain, "I"), false, 0},
		cand{named(pPlain, "ReadWriter"), false, 0}, cand{tErr, false, 0}, cand{named(pVia, "ViaI"), false, 0},
		cand{named(pRen, "RI"), false, 0}, cand{named(pThird, "Deep"), true, 0},
		cand{named(pOdd, "OddI"), false, 0})

	embedsFrom := func(cs []cand, k int) []gembed {
		var out []gembed
		seen := map[string]bool{}
		for len(out) < k {
			c := pick(r, cs)
			if seen[c.t.Name] {
				if len(seen) >= len(cs) {
					break
				}
				continue
			}
			seen[c.t.Name] = true
			out = append(out, gembed{T: c.t, Ptr: c.ptrOK && r.IntN(3) == 0})
		}
		return out
	}

	nMid := r.IntN(3)
	for i := 0; i < nMid; i++ {
		s := gstruct{Name: "E" + string(rune('1'+i)), Methods: g.methods(r.IntN(4), true, false),
			Embeds: embedsFrom(leaves, r.IntN(3))}
		g.shadowFields(&s)
		p.Structs = append(p.Structs, s)
		mids = append(mids, cand{named(g.self, s.Name), true, 1})
		if len(s.Methods) > 0 {
			p.Targets = append(p.Targets, s.Name)
		}
	}
	mids = append(mids, cand{named(pPlain, "E2"), true, 1}, cand{named(pVia, "Via"), true, 1})
	if r.IntN(3) == 0 {
		// types whose methods bring packages in on demand whose names may be bound already
		leaves = append(leaves, cand{named(pUses, "UE"), true, 0}, cand{named(pUses, "UO"), true, 0},
			cand{named(pUses, "UF"), true, 0}, cand{named(pUses, "UI"), false, 0})
	}

	orig := gstruct{Name: "Original", Methods: g.methods(1+r.IntN(8), true, true)}
	if r.IntN(100) < 70 {
		all := append(append([]cand{}, leaves...), mids...)
		all = append(all, mids...) // favour the two-level ones
		orig.Embeds = embedsFrom(all, 1+r.IntN(3))
	}
	g.shadowFields(&orig)
	// a share of programs outside the quantifier (never gating; compared with the model only):
	// a third level of embedding, or a channel type (not handled by ExtractTypeRef)
	switch r.IntN(14) {
	case 0:
		p.Kind = "random-ood"
		top := gstruct{Name: "Top", Methods: g.methods(r.IntN(3), true, false),
			Embeds: embedsFrom(mids, 1+r.IntN(2))}
		p.Structs = append(p.Structs, top)
		orig.Embeds = append([]gembed{{T: named(g.self, "Top")}}, embedsFrom(leaves, r.IntN(2))...)
	case 1:
		p.Kind = "random-ood"
		m0 := &orig.Methods[0]
		el := pick(r, []*gty{basic("int"), named(g.self, "Loc"), named(pPlain, "T")})
		m0.Ps = append([]gpar{par(func() string {
			if len(m0.Ps) > 0 && m0.Ps[0].Name != "" {
				return "ch"
			}
			return ""
		}(), &gty{K: "chan", Elem: el})}, m0.Ps...)
	}
	p.Structs = append(p.Structs, orig)
	p.Targets = append(p.Targets, "Original")
	return p
}

func arrayConst(pkg, name string, n int64, e *gty) *gty {
	return &gty{K: "array", N: n, Elem: e, LenConst: name, LenPkg: pkg}
}

// shapeProgram: one method per shape a regression would most plausibly break (each with random
// detail): variadic of a named type from a renamed import; map of slices of pointers to generic
// types with type arguments from sibling packages; directory != package name; an unnamed
// context.Context that is not the first parameter; func-typed parameters with several results;
// arrays whose length is a constant; user names equal to the generated ones at every position.
func shapeProgram(r *rand.Rand, name, kind string) *prog {
	p := &prog{Name: name, Kind: kind, Targets: []string{"Original"}}
	g := &gen{r: r, self: self(p)}
	p.RenameA = map[string]string{pRen: "rr"}
	if r.IntN(2) == 0 {
		p.RenameA[pV2] = "v2"
	}
	if r.IntN(3) == 0 {
		p.RenameA["context"] = "stdctx"
	}
	p.RenameB = map[string]string{pPlain: "pl", pV2: "vv", pThird: "thr", "context": "cx"}
	small := func() *gty { return g.ty(3) }
	// parameter lists are either all unnamed or all named (`_` allowed)
	named2 := func(names []string, ts []*gty) []gpar {
		out := make([]gpar, len(ts))
		for i := range ts {
			out[i] = par(names[i], ts[i])
		}
		return out
	}
	blank := func(n int) []string { return make([]string, n) }
	unnamedOr := func(n int, alt ...string) []string {
		if r.IntN(2) == 0 {
			return blank(n)
		}
		return alt
	}

	var ms []gmeth
	// (a) variadic of a named type from a renamed import
	{
		lead := r.IntN(3)
		ts := []*gty{}
		for i := 0; i < lead; i++ {
			ts = append(ts, small())
		}
		ts = append(ts, slice(pick(r, []*gty{named(pRen, "R"), ptr(named(pRen, "R")), named(pRen, "Gen", g.keyTy(), named(pRen, "R"))})))
		names := unnamedOr(len(ts), []string{"a", "_", "arg0"}[:0]...)
		if len(names) != len(ts) {
			names = make([]string, len(ts))
			for i := range names {
				names[i] = pick(r, []string{"_", "arg" + string(rune('0'+i)), "x" + string(rune('0'+i))})
			}
		}
		ms = append(ms, gmeth{Name: "Variadic", PtrRecv: r.IntN(2) == 0, Ps: named2(names, ts), Variadic: true,
			Rs: []gpar{par("", pick(r, []*gty{tErr, named(pRen, "R")}))}})
	}
	// (b) map of slices of pointers to generic types with type arguments from sibling packages
	{
		in := mapOf(g.keyTy(), slice(ptr(named(pPlain, "G", pick(r, []*gty{named(pV2, "V"), named(pRen, "R"), named(pOdd, "Odd")})))))
		out := mapOf(basic("string"), slice(ptr(named(pRen, "Gen", g.keyTy(), named(pV2, "Opt", pick(r, []*gty{named(pThird, "X"), named(pPlain, "T"), named(g.self, "Loc")}))))))
		ms = append(ms, gmeth{Name: "Nested", File: r.IntN(4) / 3, Ps: named2(unnamedOr(1, "m"), []*gty{in}),
			Rs: named2(blank(2), []*gty{out, named(g.self, "LocPair", named(pV2, "V"), slice(ptr(named(pPlain, "G", tErr))))})})
	}
	// (c) directory != package name (odd-dir -> realname, v2 -> verz)
	ms = append(ms, gmeth{Name: "DirPkg", Ps: named2(unnamedOr(2, "o", "_"), []*gty{named(pOdd, "Odd"), ptr(named(pV2, "V"))}),
		Rs: named2(blank(1), []*gty{pick(r, []*gty{named(pOdd, "OddI"), slice(named(pOdd, "Odd")), named(pV2, "Opt", named(pOdd, "Odd"))})})})
	// (d) unnamed context.Context that is not first (and one that is)
	{
		ts := []*gty{pick(r, []*gty{basic("int"), tCtx, small()}), tCtx, pick(r, []*gty{tCtx, named(g.self, "LocCtx")})}
		names := blank(3)
		if r.IntN(2) == 0 {
			names = []string{pick(r, []string{"_", "ctx", "a"}), "_", pick(r, []string{"_", "ctx0", "arg1"})}
		}
		ms = append(ms, gmeth{Name: "CtxNotFirst", PtrRecv: true, Ps: named2(names, ts),
			Rs: named2(blank(2), []*gty{pick(r, []*gty{tErr, basic("int")}), tErr})})
	}
	// (e) func-typed parameters with several results
	{
		f1 := fn(named2(blank(2), []*gty{tCtx, small()}), false, named2(blank(2), []*gty{small(), tErr}))
		f2 := fn(named2([]string{"a", "_"}, []*gty{small(), slice(named(pRen, "R"))}), true,
			named2([]string{"x", "y", "err"}, []*gty{basic("int"), named(pPlain, "T"), tErr}))
		ms = append(ms, gmeth{Name: "FuncMulti", Ps: named2(unnamedOr(2, "f", "arg0"), []*gty{f1, f2}),
			Rs: named2(blank(1), []*gty{fn(nil, false, named2(blank(3), []*gty{small(), small(), tErr}))})})
	}
	// (f) arrays whose length is a constant (own package, sibling package, literal)
	ms = append(ms, gmeth{Name: "ArrayConst", File: r.IntN(5) / 4,
		Ps: named2(unnamedOr(3, "a", "b", "c"), []*gty{arrayConst(g.self, "LocSize", 3, small()),
			arrayConst(pPlain, "Size", 2, ptr(named(pPlain, "T"))), array(int64(r.IntN(7)), array(2, basic("byte")))}),
		Rs: named2(blank(1), []*gty{slice(arrayConst(g.self, "LocSize", 3, named(pRen, "R")))})})
	// (g) user names equal to the generated ones at every position
	{
		nin, nout := 1+r.IntN(4), 1+r.IntN(3)
		ins, outs := make([]string, nin), make([]string, nout)
		tin, tout := make([]*gty, nin), make([]*gty, nout)
		for i := range ins {
			ins[i] = "arg" + string(rune('0'+i))
			tin[i] = small()
		}
		for i := range outs {
			outs[i] = "ret" + string(rune('0'+i))
			tout[i] = small()
		}
		if r.IntN(2) == 0 {
			ins[0], tin[0] = "ctx", tCtx
		}
		if r.IntN(2) == 0 {
			outs[nout-1], tout[nout-1] = "err", tErr
		}
		ms = append(ms, gmeth{Name: "Generated", Ps: named2(ins, tin), Rs: named2(outs, tout)})
		// the same names shifted against the positions, mixed with `_`
		sh := []string{"arg1", "_", "arg0", "arg2"}[:1+r.IntN(4)]
		ts := make([]*gty, len(sh))
		for i := range ts {
			ts[i] = small()
		}
		ms = append(ms, gmeth{Name: "Shifted", PtrRecv: true, Ps: named2(sh, ts),
			Rs: named2([]string{"ret1", "_", "_"}, []*gty{basic("int"), pick(r, []*gty{basic("int"), tErr}), tErr})})
	}
	p.Structs = []gstruct{{Name: "Original", Methods: ms}}
	return p
}

// embedNameProgram: three or more embedded fields provide the same method NAME with DIFFERENT
// signatures at different depths (spec: name -> per field 0 = not provided, 1 = declared by the
// field's type, 2 = declared by a type embedded in the field's type).  Go promotes the unique
// shallowest declaration, if there is one; the rendered interface must carry that declaration's
// signature or not list the name at all.
func embedNameProgram(r *rand.Rand, name, kind string, spec map[string][]int) *prog {
	p := &prog{Name: name, Kind: kind, Targets: []string{"Original"}}
	g := &gen{r: r, self: self(p)}
	p.RenameA = map[string]string{pRen: "rr"}
	p.RenameB = map[string]string{pPlain: "pl", pV2: "vv", pThird: "thr", "context": "cx"}
	if spec == nil {
		k := 3 + r.IntN(3)
		spec = map[string][]int{}
		for _, nm := range [][]string{{"Close"}, {"Close", "Get"}, {"Run", "foo"}}[r.IntN(3)] {
			d := make([]int, k)
			n := 0
			for i := range d {
				d[i] = r.IntN(3)
				if d[i] > 0 {
					n++
				}
			}
			for i := 0; n < 3; i++ { // at least three providers
				if d[i] == 0 {
					d[i] = 1 + r.IntN(2)
					n++
				}
			}
			if r.IntN(2) == 0 { // favour a unique shallowest declaration
				one := r.IntN(k)
				for i := range d {
					if d[i] == 1 && i != one {
						d[i] = 2
					}
				}
				d[one] = 1
			}
			spec[nm] = d
		}
	}
	names := make([]string, 0, len(spec))
	k := 0
	for nm, d := range spec {
		names = append(names, nm)
		k = len(d)
	}
	sort.Strings(names)
	argTypes := []*gty{nil, basic("bool"), basic("int"), basic("string"), slice(basic("byte")), ptr(named(g.self, "Loc")),
		named(pPlain, "T"), named(pRen, "R"), named(pV2, "V"), tCtx, mapOf(basic("string"), basic("int")), basic("float64")}
	provider := 0
	mk := func(nm string) gmeth {
		j := provider % len(argTypes)
		provider++
		m := gmeth{Name: nm, PtrRecv: r.IntN(2) == 0}
		if argTypes[j] != nil {
			m.Ps = []gpar{par(pick(r, []string{"", "_", "flush", "arg0"}), argTypes[j])}
		}
		if j%2 == 0 {
			m.Rs = []gpar{par("", tErr)}
		}
		return m
	}
	orig := gstruct{Name: "Original", Methods: []gmeth{{Name: "Own"}}}
	if r.IntN(5) == 0 {
		orig.Methods = append(orig.Methods, mk(names[0])) // the type's own method shadows them all
	}
	for i := 0; i < k; i++ {
		fi := gstruct{Name: "F" + string(rune('0'+i))}
		gi := gstruct{Name: "G" + string(rune('0'+i))}
		for _, nm := range names {
			switch spec[nm][i] {
			case 1:
				fi.Methods = append(fi.Methods, mk(nm))
			case 2:
				gi.Methods = append(gi.Methods, mk(nm))
			}
		}
		if r.IntN(3) == 0 {
			fi.Methods = append(fi.Methods, gmeth{Name: "Only" + string(rune('0'+i))})
		}
		if len(gi.Methods) > 0 || r.IntN(3) == 0 {
			p.Structs = append(p.Structs, gi)
			fi.Embeds = []gembed{{T: named(g.self, gi.Name), Ptr: r.IntN(2) == 0}}
		}
		p.Structs = append(p.Structs, fi)
		if len(fi.Methods) > 0 {
			p.Targets = append(p.Targets, fi.Name)
		}
		orig.Embeds = append(orig.Embeds, gembed{T: named(g.self, fi.Name), Ptr: r.IntN(3) == 0})
	}
	p.Structs = append(p.Structs, orig)
	return p
}

var fieldTypes = []*gty{basic("int"), basic("string"), fn(nil, false, nil),
	fn([]gpar{par("", basic("int"))}, false, []gpar{par("", tErr)}), ptr(basic("bool")), slice(basic("byte"))}

// fieldShadowProgram: structs with exactly ONE embedded field (sometimes two) and plain fields —
// of func type and of other types — named like methods of the embedded type or of the type
// embedded in that one.  In Go a field at a shallower depth hides a promoted method of the same
// name, so such a method is not in the method set and must not be rendered.
func fieldShadowProgram(r *rand.Rand, name, kind string) *prog {
	p := &prog{Name: name, Kind: kind, Targets: []string{"Original", "E"}}
	g := &gen{r: r, self: self(p)}
	p.RenameA = map[string]string{pRen: "rr"}
	p.RenameB = map[string]string{pPlain: "pl", pV2: "vv", pThird: "thr", "context": "cx"}
	simple := func(nm string) gmeth {
		ps, v, rs := g.sig(2, 2)
		return gmeth{Name: nm, PtrRecv: r.IntN(2) == 0, Ps: ps, Variadic: v, Rs: rs}
	}
	field := func(nm string) gfield { return gfield{Name: nm, T: pick(r, fieldTypes)} }
	leaf := gstruct{Name: "L", Methods: []gmeth{simple("Get"), simple("Deep"), simple("helper")}}
	mid := gstruct{Name: "E", Embeds: []gembed{{T: named(g.self, "L"), Ptr: r.IntN(2) == 0}},
		Methods: []gmeth{simple("Foo"), simple("Bar"), simple("Baz")}}
	if r.IntN(2) == 0 {
		mid.Fields = append(mid.Fields, field("Get")) // hides L.Get already at E
	}
	if r.IntN(3) == 0 {
		mid.Fields = append(mid.Fields, field("helper"))
	}
	orig := gstruct{Name: "Original", Embeds: []gembed{{T: named(g.self, "E"), Ptr: r.IntN(2) == 0}},
		Methods: []gmeth{{Name: "Own"}}}
	for _, nm := range []string{"Foo", "Bar", "Deep", "Get", "Unrelated"} {
		if r.IntN(2) == 0 {
			orig.Fields = append(orig.Fields, field(nm))
		}
	}
	if len(orig.Fields) == 0 {
		orig.Fields = append(orig.Fields, field("Foo"))
	}
	if r.IntN(4) == 0 { // a second embedded field: the pinned single-field shortcut does not apply
		orig.Embeds = append(orig.Embeds, gembed{T: named(pPlain, "E2")})
	}
	p.Structs = []gstruct{leaf, mid, orig}
	return p
}

// shadowFields: now and then a plain field named like a method from the pool (never like one of
// the struct's own methods or embedded types — Go rejects that)
func (g *gen) shadowFields(s *gstruct) {
	if len(s.Embeds) == 0 || g.r.IntN(4) != 0 {
		return
	}
	taken := map[string]bool{}
	for _, m := range s.Methods {
		taken[m.Name] = true
	}
	for _, e := range s.Embeds {
		taken[e.T.Name] = true
	}
	for k := 1 + g.r.IntN(2); k > 0; k-- {
		nm := pick(g.r, append(append([]string{}, exportedNames...), unexportedNames...))
		if !taken[nm] {
			taken[nm] = true
			s.Fields = append(s.Fields, gfield{Name: nm, T: pick(g.r, fieldTypes)})
		}
	}
}

// ifaceUnionProgram: embedded INTERFACES that themselves embed interfaces with overlapping methods
// of identical signature (Reader{Read;Close} and Writer{Write;Close} inside ReadWriter), diamonds
// (both embed one base interface), restated methods, local and sibling-package interfaces, embedded
// in a struct directly (one field, several fields) or two levels deep (interface inside an embedded
// struct).  The method set of an interface is a set: a method two embedded interfaces share is ONE
// method, which Go promotes from the single embedded field.  Every declaration of a name has the
// same types (Go demands it); the parameter names differ from declaration to declaration.
func ifaceUnionProgram(r *rand.Rand, name, kind string, variant int) *prog {
	p := &prog{Name: name, Kind: kind, Targets: []string{"Original"}}
	g := &gen{r: r, self: self(p)}
	p.RenameA = map[string]string{pRen: "rr"}
	if r.IntN(3) == 0 {
		p.RenameA[pThird] = "t3"
	}
	p.RenameB = map[string]string{pPlain: "pl", pV2: "vv", pThird: "thr", "context": "cx"}
	if variant < 0 {
		variant = r.IntN(8)
	}
	pool := []string{"Close", "Read", "Write", "Flush", "Peer", "reset"}
	proto := map[string]gmeth{}
	for _, nm := range pool {
		ps, v, rs := g.sig(2, 2)
		proto[nm] = gmeth{Name: nm, Ps: ps, Variadic: v, Rs: rs}
	}
	proto["Close"] = gmeth{Name: "Close", Rs: []gpar{par("", tErr)}} // as in package plain
	decl := func(nm string) gmeth {
		m := proto[nm]
		taken := map[string]bool{}
		ins, outs := g.names(len(m.Ps), taken, 40), g.names(len(m.Rs), taken, 60)
		d := gmeth{Name: nm, Variadic: m.Variadic}
		for i, q := range m.Ps {
			d.Ps = append(d.Ps, par(ins[i], q.T))
		}
		for i, q := range m.Rs {
			d.Rs = append(d.Rs, par(outs[i], q.T))
		}
		return d
	}
	loc := func(n string) *gty { return named(g.self, n) }
	diamond := r.IntN(2) == 0
	ir := giface{Name: "IR", Methods: []gmeth{decl("Read")}}
	iw := giface{Name: "IW", Methods: []gmeth{decl("Write")}}
	if diamond {
		p.Ifaces = append(p.Ifaces, giface{Name: "IC", Methods: []gmeth{decl("Close")}})
		ir.Embeds, iw.Embeds = []*gty{loc("IC")}, []*gty{loc("IC")}
		if r.IntN(3) == 0 {
			iw.Methods = append(iw.Methods, decl("Close")) // restated next to the embedded declaration
		}
	} else {
		ir.Methods = append(ir.Methods, decl("Close"))
		iw.Methods = append(iw.Methods, decl("Close"))
	}
	for _, nm := range []string{"Peer", "reset", "Flush"} {
		switch r.IntN(4) {
		case 0:
			ir.Methods = append(ir.Methods, decl(nm))
			iw.Methods = append(iw.Methods, decl(nm))
		case 1:
			ir.Methods = append(ir.Methods, decl(nm))
		}
	}
	irw := giface{Name: "IRW", Embeds: []*gty{loc("IR"), loc("IW")}}
	switch r.IntN(4) {
	case 0:
		irw.Methods = append(irw.Methods, decl("Close"))
	case 1:
		irw.Methods = append(irw.Methods, decl("Flush"))
	case 2:
		irw.Embeds = append(irw.Embeds, named(pPlain, "Closer")) // the same Close() error from a sibling package
	}
	p.Ifaces = append(p.Ifaces, ir, iw, irw)
	orig := gstruct{Name: "Original", Methods: []gmeth{{Name: "Own"}}}
	if r.IntN(6) == 0 {
		orig.Methods = append(orig.Methods, decl(pick(r, []string{"Close", "Peer", "Read"}))) // the type's own method wins
	}
	switch variant {
	case 0: // the single embedded field is the interface
		orig.Embeds = []gembed{{T: loc("IRW")}}
	case 1: // next to a struct with an unrelated or a clashing method
		l := gstruct{Name: "L", Methods: []gmeth{decl(pick(r, []string{"Flush", "Write"})), {Name: "Unrelated"}}}
		p.Structs = append(p.Structs, l)
		orig.Embeds = []gembed{{T: loc("IRW")}, {T: loc("L"), Ptr: r.IntN(2) == 0}}
	case 2: // two levels deep: the interface inside an embedded struct
		f := gstruct{Name: "F", Embeds: []gembed{{T: loc("IRW")}}, Methods: []gmeth{{Name: "OfF"}}}
		p.Structs = append(p.Structs, f)
		p.Targets = append(p.Targets, "F")
		orig.Embeds = []gembed{{T: loc("F"), Ptr: r.IntN(2) == 0}}
	case 3: // two levels deep, beside a sibling struct; a plain field of F may hide a method
		f := gstruct{Name: "F", Embeds: []gembed{{T: loc("IRW")}}}
		if r.IntN(2) == 0 {
			f.Fields = []gfield{{Name: pick(r, []string{"Read", "Close", "Other"}), T: pick(r, fieldTypes)}}
		}
		p.Structs = append(p.Structs, f)
		p.Targets = append(p.Targets, "F")
		orig.Embeds = []gembed{{T: loc("F"), Ptr: true}, {T: named(pPlain, "E")}}
	case 4: // the diamond of a sibling package (its Peer mentions a package a.go does not import)
		orig.Embeds = []gembed{{T: named(pPlain, "ReadWriter")}}
	case 5: // the union and one of its parts as two fields: the shared names are ambiguous in Go
		orig.Embeds = []gembed{{T: loc("IRW")}, {T: loc("IR")}}
	case 6: // a local interface joining the local union with the sibling one
		ix := giface{Name: "IX", Embeds: []*gty{loc("IW"), named(pPlain, "Closer")}, Methods: []gmeth{decl("Close")}}
		p.Ifaces = append(p.Ifaces, ix)
		orig.Embeds = []gembed{{T: loc("IX")}}
	default: // three levels of interface embedding below one struct field
		top := giface{Name: "ITop", Embeds: []*gty{loc("IRW"), loc("IR"), named(pPlain, "Writer")}}
		// plain.Writer declares Write/Peer/Close with its own types: only compatible names may be shared
		top.Embeds = top.Embeds[:2]
		p.Ifaces = append(p.Ifaces, top)
		f := gstruct{Name: "F", Embeds: []gembed{{T: loc("ITop")}}, Methods: []gmeth{{Name: "OfF"}}}
		p.Structs = append(p.Structs, f)
		orig.Embeds = []gembed{{T: loc("F")}}
	}
	p.Structs = append(p.Structs, orig)
	return p
}

// aliasClashProgram: an import added on demand (for a package the file a.go does not import,
// met in the signature of a method promoted from an embedded sibling type) whose package name is
// bound already — by a plain import of a.go (a/util against b/util), by a rename of a.go
// (`realname "…/sib/ren"` against package realname of directory odd-dir), by a package-level
// declaration of the target package (type far), by another on-demand import (a/util through a
// method declared in b.go, then b/util) — active or not when the clash arises.  Two imports
// binding one name do not compile; the qualifier must denote the right package.
func aliasClashProgram(r *rand.Rand, name, kind string, variant int) *prog {
	p := &prog{Name: name, Kind: kind, Targets: []string{"Original"}}
	g := &gen{r: r, self: self(p)}
	p.RenameA = map[string]string{pRen: "rr"}
	p.RenameB = map[string]string{pPlain: "pl", pV2: "vv", pThird: "thr", "context": "cx"}
	if variant < 0 {
		variant = r.IntN(12)
	}
	nm := func(s string) string { return pick(r, []string{s, "_", ""}) }
	one := func(n string, t *gty) []gpar {
		x := nm(n)
		return []gpar{par(x, t)}
	}
	orig := gstruct{Name: "Original"}
	utilX := named(pAUtil, "X")
	switch variant {
	case 0: // plain import util (a/util) used by the target; b/util arrives on demand
		orig.Methods = []gmeth{{Name: "Own", Ps: one("x", utilX), Rs: one("", slice(utilX))}}
		orig.Embeds = []gembed{{T: named(pUses, "UE"), Ptr: r.IntN(2) == 0}}
	case 1: // the plain import is used by another type of a.go only: not active for Original
		p.Structs = append(p.Structs, gstruct{Name: "Other", Methods: []gmeth{{Name: "Uses", Ps: one("x", utilX)}}})
		p.Targets = append(p.Targets, "Other")
		orig.Methods = []gmeth{{Name: "Own"}}
		orig.Embeds = []gembed{{T: named(pUses, "UE")}}
	case 2: // a rename of a.go equals the package name of an on-demand import (odd-dir -> realname)
		p.RenameA = map[string]string{pRen: "realname"}
		orig.Methods = []gmeth{{Name: "Own", Ps: one("r", named(pRen, "R")), Rs: one("", ptr(named(pRen, "Gen", basic("int"), named(pRen, "R"))))}}
		orig.Embeds = []gembed{{T: named(pUses, "UO"), Ptr: true}}
	case 3: // a package-level declaration of the target package is named like the on-demand package
		p.Structs = append(p.Structs, gstruct{Name: "far"})
		orig.Methods = []gmeth{{Name: "Own", Ps: one("f", ptr(named(g.self, "far")))}}
		orig.Embeds = []gembed{{T: named(pUses, "UF")}}
	case 4: // two levels deep, the clash arises below an embedded struct of the same package
		f := gstruct{Name: "F", Embeds: []gembed{{T: named(pUses, "UE")}, {T: named(pUses, "UI")}},
			Methods: []gmeth{{Name: "OfF", Rs: one("", mapOf(basic("string"), utilX))}}}
		p.Structs = append(p.Structs, f)
		p.Targets = append(p.Targets, "F")
		orig.Methods = []gmeth{{Name: "Own"}}
		orig.Embeds = []gembed{{T: named(g.self, "F"), Ptr: r.IntN(2) == 0}}
	case 5: // two on-demand imports of one name: a/util through a method declared in b.go, then b/util
		orig.Methods = []gmeth{{Name: "Own"}, {Name: "InB", File: 1, Ps: one("x", utilX)}}
		orig.Embeds = []gembed{{T: named(pUses, "UE")}}
	case 7: // one path imported twice: `util ".../sib/plain"` then `".../sib/plain"`: the later spec is the
		// handler's entry, the earlier one is kept aside (ImportHandler.shadowed) and its name stays bound
		p.RenameA = map[string]string{pRen: "rr", pPlain: "util"}
		p.DoubleA = map[string]string{pPlain: "-"}
		pt := named(pPlain, "T")
		orig.Methods = []gmeth{{Name: "Own", Ps: []gpar{par(nm("a"), pt)}, Rs: one("", slice(pt))},
			{Name: "Own2", Ps: one("g", named(pPlain, "G", pt))}}
		orig.Embeds = []gembed{{T: named(pUses, "UE")}}
	case 8: // twice under two renames, the second equal to the package name of an on-demand import
		p.RenameA = map[string]string{pRen: "rr", pV2: "far"}
		p.DoubleA = map[string]string{pV2: "vv2"}
		vt := named(pV2, "V")
		orig.Methods = []gmeth{{Name: "Own", Ps: []gpar{par("a", vt), par("_", ptr(vt))}, Rs: one("", named(pV2, "Opt", vt))}}
		orig.Embeds = []gembed{{T: named(pUses, "UF"), Ptr: r.IntN(2) == 0}}
	case 9: // the ORDER of activation: a method declared in a file that sorts before a.go mentions b/util
		// (on demand, rendered first); a later method of a.go then activates the file's own import util = a/util
		orig.Methods = []gmeth{{Name: "First", File: 2, Ps: one("t", named(pBUtil, "T"))},
			{Name: "Own", Ps: one("x", utilX), Rs: one("", slice(utilX))}}
		if r.IntN(2) == 0 {
			orig.Embeds = []gembed{{T: named(pUses, "UE")}}
		}
	case 10: // the same order against a rename: realname = ren in a.go, package realname (odd-dir) first
		p.RenameA = map[string]string{pRen: "realname"}
		orig.Methods = []gmeth{{Name: "First", File: 2, Ps: one("o", ptr(named(pOdd, "Odd"))), Rs: one("", named(pOdd, "OddI"))},
			{Name: "Own", Ps: one("r", named(pRen, "R"))}}
	case 11: // the reverse order (control): the file's import is active before the on-demand one arrives
		orig.Methods = []gmeth{{Name: "Own", Ps: one("x", utilX)}, {Name: "Second", File: 1, Ps: one("t", named(pBUtil, "T"))}}
		p.RenameB = map[string]string{}
	default: // all of them at once, and the interface
		p.RenameA = map[string]string{pRen: "realname"}
		p.Structs = append(p.Structs, gstruct{Name: "far"})
		orig.Methods = []gmeth{{Name: "Own", Ps: []gpar{par("x", utilX), par("r", named(pRen, "R")), par("f", named(g.self, "far"))}}}
		orig.Embeds = []gembed{{T: named(pUses, "UE")}, {T: named(pUses, "UO"), Ptr: true}, {T: named(pUses, "UF")}, {T: named(pUses, "UI")}}
	}
	p.Structs = append(p.Structs, orig)
	return p
}
