// c19 — farm for property C19 (gencommon: the interface rendered from FindInterface compiles
// and fits).
//
// The harness writes a scratch Go module holding fixed sibling packages and one generated
// package per program (a struct with 1-8 methods, embedded structs/pointers/interfaces two
// levels deep, parameter/result types and names per the property's quantifier), loads all of
// it once with the real gencommon.LoadPackages, and for every target struct and each of the
// four option combinations calls the real gencommon.FindInterface with a fresh ImportHandler
// (the real calcImports, reached through the verification-only export added to the scratch
// copy).  It records Signature(), the parameter names, the method set, GetActive(), go/types'
// own method set, renders `type Rendered interface{...}; var _ Rendered = (*T)(nil)` into the
// package and builds the whole farm with the Go compiler.  One case per (program, target,
// options) is written as a Gallina term (IFaceJudge.c19_case) and as JSON.
//
//	c19 -seed N -out PREFIX -work DIR -mode corpus|random|shapes|progs [-n COUNT] [-progs FILE]
package main

import (
	"encoding/json"
	"flag"
	"fmt"
	"go/parser"
	"go/token"
	"go/types"
	"math/rand/v2"
	"os"
	"os/exec"
	"path/filepath"
	"regexp"
	"runtime/debug"
	"sort"
	"strconv"
	"strings"

	"golang.org/x/tools/go/packages"

	"github.com/drshriveer/gtools/gencommon"

	"gtverif/internal/gal"
)

const modPath = "example.com/farm"

var pkgNames = map[string]string{
	"context":                "context",
	modPath + "/sib/plain":   "plain",
	modPath + "/sib/ren":     "ren",
	modPath + "/sib/v2":      "verz",
	modPath + "/sib/third":   "third",
	modPath + "/sib/odd-dir": "realname",
	modPath + "/sib/a/util":  "util",
	modPath + "/sib/b/util":  "util",
	modPath + "/sib/uses":    "uses",
	modPath + "/sib/via":     "via",
	modPath + "/sib/far":     "far",
}

// ---------------------------------------------------------------- descriptions

type gty struct {
	K        string `json:"k"` // basic|named|ptr|slice|array|map|func (|chan: generator only, outside the quantifier)
	Name     string `json:"name,omitempty"`
	Pkg      string `json:"pkg,omitempty"` // import path of a named type, "" = universe
	PkgName  string `json:"pkgname,omitempty"`
	Args     []*gty `json:"args,omitempty"`
	Elem     *gty   `json:"elem,omitempty"`
	Key      *gty   `json:"key,omitempty"`
	N        int64  `json:"n,omitempty"`
	LenConst string `json:"lenconst,omitempty"` // source spells the array length as this constant (value N)
	LenPkg   string `json:"lenpkg,omitempty"`   // package declaring LenConst ("" = the program's own)
	Ps       []gpar `json:"ps,omitempty"`
	Rs       []gpar `json:"rs,omitempty"`
	Variadic bool   `json:"variadic,omitempty"`
}

type gpar struct {
	Name string `json:"name"`
	Ctx  bool   `json:"ctx,omitempty"` // oracle: TypeImplements(type, ContextInterface)
	Err  bool   `json:"err,omitempty"` // oracle: TypeImplements(type, ErrorInterface)
	T    *gty   `json:"t"`
}

type gmeth struct {
	Name     string `json:"name"`
	PtrRecv  bool   `json:"ptr_recv,omitempty"`
	File     int    `json:"file,omitempty"` // 0 = a.go (the file the ImportHandler is built from), 1 = b.go, 2 = 0first.go (sorts, hence is type-checked, before a.go: its methods come first)
	Ps       []gpar `json:"ps"`
	Rs       []gpar `json:"rs"`
	Variadic bool   `json:"variadic,omitempty"`
}

type gembed struct {
	T   *gty `json:"t"`
	Ptr bool `json:"ptr,omitempty"`
}

type gfield struct {
	Name string `json:"name"`
	T    *gty   `json:"t"`
}

type gstruct struct {
	Name    string   `json:"name"`
	Embeds  []gembed `json:"embeds,omitempty"`
	Fields  []gfield `json:"fields,omitempty"` // plain (non-embedded) fields
	Methods []gmeth  `json:"methods,omitempty"`
}

type giface struct {
	Name    string  `json:"name"`
	Embeds  []*gty  `json:"embeds,omitempty"` // embedded named interfaces (written before the methods)
	Methods []gmeth `json:"methods,omitempty"`
}

type prog struct {
	Name    string            `json:"name"`
	Kind    string            `json:"kind"`
	Structs []gstruct         `json:"structs"`
	Ifaces  []giface          `json:"ifaces,omitempty"`
	Targets []string          `json:"targets"`
	RenameA map[string]string `json:"rename_a,omitempty"` // file a.go: path -> rename ("" = plain import)
	RenameB map[string]string `json:"rename_b,omitempty"`
	// file a.go imports these paths a second time, under this name ("-" = plainly), after the first
	// spec; qualifiers alternate between the two names (both specs must be used)
	DoubleA map[string]string `json:"double_a,omitempty"`
}

func self(p *prog) string { return modPath + "/" + p.Name }

func basic(n string) *gty { return &gty{K: "basic", Name: n} }
func named(pkg, name string, args ...*gty) *gty {
	return &gty{K: "named", Pkg: pkg, PkgName: pkgNames[pkg], Name: name, Args: args}
}
func ptr(e *gty) *gty   { return &gty{K: "ptr", Elem: e} }
func slice(e *gty) *gty { return &gty{K: "slice", Elem: e} }
func array(n int64, e *gty) *gty {
	return &gty{K: "array", N: n, Elem: e}
}
func mapOf(k, v *gty) *gty { return &gty{K: "map", Key: k, Elem: v} }
func fn(ps []gpar, variadic bool, rs []gpar) *gty {
	return &gty{K: "func", Ps: ps, Rs: rs, Variadic: variadic}
}
func par(name string, t *gty) gpar { return gpar{Name: name, T: t} }

var (
	tErr = named("", "error")
	tAny = named("", "any")
	tCtx = named("context", "Context")
)

// canon renders a description with full package paths (used to cross-check the generator's
// intent against what go/types reports).
func canon(t *gty) string {
	switch t.K {
	case "basic":
		return t.Name
	case "named":
		s := t.Name
		if t.Pkg != "" {
			s = t.Pkg + "." + t.Name
		}
		if len(t.Args) > 0 {
			as := make([]string, len(t.Args))
			for i, a := range t.Args {
				as[i] = canon(a)
			}
			s += "[" + strings.Join(as, ",") + "]"
		}
		return s
	case "ptr":
		return "*" + canon(t.Elem)
	case "slice":
		return "[]" + canon(t.Elem)
	case "array":
		return "[" + strconv.FormatInt(t.N, 10) + "]" + canon(t.Elem)
	case "map":
		return "map[" + canon(t.Key) + "]" + canon(t.Elem)
	case "func":
		return "func" + canonSig(t.Ps, t.Variadic, t.Rs)
	case "chan":
		return "chan " + canon(t.Elem)
	}
	return "?"
}

func canonSig(ps []gpar, variadic bool, rs []gpar) string {
	f := func(l []gpar) string {
		out := make([]string, len(l))
		for i, p := range l {
			out[i] = p.Name + " " + canon(p.T)
		}
		return strings.Join(out, ",")
	}
	v := ""
	if variadic {
		v = "..."
	}
	return "(" + f(ps) + v + ")(" + f(rs) + ")"
}

// ---------------------------------------------------------------- source printing

type filePrinter struct {
	p      *prog
	rename map[string]string
	used   map[string]bool
	double map[string]string
	uses   map[string]int
}

func (fp *filePrinter) qual(pkg string) string {
	if pkg == "" || pkg == self(fp.p) {
		return ""
	}
	fp.used[pkg] = true
	if d := fp.double[pkg]; d != "" {
		if fp.uses == nil {
			fp.uses = map[string]int{}
		}
		fp.uses[pkg]++
		if fp.uses[pkg]%2 == 0 { // every second use goes through the second spec
			if d == "-" {
				return pkgNames[pkg] + "."
			}
			return d + "."
		}
	}
	if r := fp.rename[pkg]; r != "" {
		return r + "."
	}
	return pkgNames[pkg] + "."
}

func (fp *filePrinter) ty(t *gty) string {
	switch t.K {
	case "basic":
		return t.Name
	case "named":
		s := fp.qual(t.Pkg) + t.Name
		if len(t.Args) > 0 {
			as := make([]string, len(t.Args))
			for i, a := range t.Args {
				as[i] = fp.ty(a)
			}
			s += "[" + strings.Join(as, ", ") + "]"
		}
		return s
	case "ptr":
		return "*" + fp.ty(t.Elem)
	case "slice":
		return "[]" + fp.ty(t.Elem)
	case "array":
		if t.LenConst != "" {
			return "[" + fp.qual(t.LenPkg) + t.LenConst + "]" + fp.ty(t.Elem)
		}
		return "[" + strconv.FormatInt(t.N, 10) + "]" + fp.ty(t.Elem)
	case "map":
		return "map[" + fp.ty(t.Key) + "]" + fp.ty(t.Elem)
	case "func":
		return "func" + fp.sig(t.Ps, t.Variadic, t.Rs)
	case "chan":
		return "chan " + fp.ty(t.Elem)
	}
	panic("bad type kind " + t.K)
}

func (fp *filePrinter) params(l []gpar, variadic bool) string {
	out := make([]string, len(l))
	for i, p := range l {
		var t string
		if variadic && i == len(l)-1 {
			t = "..." + fp.ty(p.T.Elem)
		} else {
			t = fp.ty(p.T)
		}
		if p.Name != "" {
			out[i] = p.Name + " " + t
		} else {
			out[i] = t
		}
	}
	return strings.Join(out, ", ")
}

func (fp *filePrinter) sig(ps []gpar, variadic bool, rs []gpar) string {
	s := "(" + fp.params(ps, variadic) + ")"
	switch {
	case len(rs) == 0:
	case len(rs) == 1 && rs[0].Name == "":
		s += " " + fp.ty(rs[0].T)
	default:
		s += " (" + fp.params(rs, false) + ")"
	}
	return s
}

func (fp *filePrinter) file(body string) string {
	var b strings.Builder
	b.WriteString("package " + fp.p.Name + "\n\n")
	paths := make([]string, 0, len(fp.used))
	for k := range fp.used {
		paths = append(paths, k)
	}
	sort.Strings(paths)
	if len(paths) > 0 {
		b.WriteString("import (\n")
		for _, k := range paths {
			if r := fp.rename[k]; r != "" {
				b.WriteString("\t" + r + " \"" + k + "\"\n")
			} else {
				b.WriteString("\t\"" + k + "\"\n")
			}
			if d := fp.double[k]; d != "" && fp.uses[k] >= 2 {
				if d == "-" {
					b.WriteString("\t\"" + k + "\"\n")
				} else {
					b.WriteString("\t" + d + " \"" + k + "\"\n")
				}
			}
		}
		b.WriteString(")\n\n")
	}
	b.WriteString(body)
	return b.String()
}

const prelude = `
import (
	pctx "context"

	pp "example.com/farm/sib/plain"
)

type Loc struct{ X int }
type LocG[T any] struct{ V T }
type LocPair[K comparable, V any] struct {
	K K
	V V
}
type LocAlias = Loc
type LocSibAlias = pp.T
type LocErr struct{}

func (LocErr) Error() string { return "" }

type LocCtx interface{ pctx.Context }
type LocFn func(int) string

// methods that mention the type parameters: embedded as LocG[X] / *LocPair[K, V] they are promoted
// with the type ARGUMENTS in their signatures
func (g LocG[T]) Value() T                       { return g.V }
func (g *LocG[T]) SetValue(v T, more ...T) error { return nil }
func (p LocPair[K, V]) Lookup(key K) (V, bool)   { return p.V, false }
func (p *LocPair[K, V]) Each(f func(K, V) bool)  {}

// a defined type that is not a struct, with methods (embeddable)
type LocInts []int

func (l LocInts) Sum() int    { return len(l) }
func (l *LocInts) Push(v int) {}

const LocSize = 3
`

// sources returns the files of a program package.
func sources(p *prog) map[string]string {
	out := map[string]string{"prelude.go": "package " + p.Name + "\n" + prelude}
	a := &filePrinter{p: p, rename: p.RenameA, used: map[string]bool{}, double: p.DoubleA}
	b := &filePrinter{p: p, rename: p.RenameB, used: map[string]bool{}}
	c := &filePrinter{p: p, rename: map[string]string{}, used: map[string]bool{}}
	var ab, bb, cb strings.Builder
	for _, it := range p.Ifaces {
		ab.WriteString("type " + it.Name + " interface {\n")
		for _, e := range it.Embeds {
			ab.WriteString("\t" + a.ty(e) + "\n")
		}
		for _, m := range it.Methods {
			ab.WriteString("\t" + m.Name + a.sig(m.Ps, m.Variadic, m.Rs) + "\n")
		}
		ab.WriteString("}\n\n")
	}
	for _, s := range p.Structs {
		ab.WriteString("type " + s.Name + " struct {\n")
		for _, e := range s.Embeds {
			star := ""
			if e.Ptr {
				star = "*"
			}
			ab.WriteString("\t" + star + a.ty(e.T) + "\n")
		}
		for _, f := range s.Fields {
			ab.WriteString("\t" + f.Name + " " + a.ty(f.T) + "\n")
		}
		ab.WriteString("}\n\n")
		for _, m := range s.Methods {
			fp, w := a, &ab
			if m.File == 1 {
				fp, w = b, &bb
			} else if m.File == 2 {
				fp, w = c, &cb
			}
			recv := s.Name
			if m.PtrRecv {
				recv = "*" + s.Name
			}
			w.WriteString("func (" + recv + ") " + m.Name + fp.sig(m.Ps, m.Variadic, m.Rs) + " { panic(\"farm\") }\n\n")
		}
	}
	out["a.go"] = a.file(ab.String())
	if bb.Len() > 0 {
		out["b.go"] = b.file(bb.String())
	}
	if cb.Len() > 0 {
		out["0first.go"] = c.file(cb.String())
	}
	return out
}

var sibSources = map[string]string{
	"sib/plain/plain.go": `package plain

import (
	"context"

	"example.com/farm/sib/third"
)

type T struct{ A int }
type I interface {
	Get(k string) (T, error)
	Close() error
}
type G[X any] struct{ V X }

func (g G[X]) Unwrap() X                          { return g.V }
func (g *G[X]) Put(x X, at map[string]X) (X, error) { return x, nil }

type Err struct{}

// interfaces that embed interfaces with overlapping (identical) methods: a diamond
type Closer interface{ Close() error }
type Reader interface {
	Closer
	Read(p []byte) (n int, err error)
	Peer() third.X
}
type Writer interface {
	Closer
	Write(p []byte) (int, error)
	Peer() (x third.X)
}
type ReadWriter interface {
	Reader
	Writer
}

func (*Err) Error() string { return "" }

type A = T

const Size = 2

// E is meant to be embedded.
type E struct{}

func (E) Foo(x third.X) third.X                  { return x }
func (*E) Bar(ctx context.Context, _ ...T) error { return nil }
func (E) Plain()                                 {}

// E2 embeds a type of a further package (two levels inside a sibling).
type E2 struct{ third.Deep }

func (E2) Baz(_ int, arg0 string) {}
`,
	"sib/third/third.go": `package third

type X struct{}
type Deep struct{}

func (Deep) Foo()                        {}
func (Deep) DeepOnly(m map[string][]X) X { return X{} }
`,
	"sib/ren/ren.go": `package ren

type R struct{}
type Gen[K comparable, V any] struct{}
type RI interface{ Run(r R) }
`,
	"sib/v2/v2.go": `package verz

type V struct{}
type Opt[T any] struct{}
`,
	// two packages of one name, and a package whose types have methods that mention the second
	// one, the package of directory odd-dir (package realname) and package far: embedded in a
	// generated package they bring these packages in on demand, under names that may be bound
	// already (by an import of the file, by a rename, by a package-level declaration)
	"sib/a/util/util.go": `package util

type X struct{}
`,
	"sib/b/util/util.go": `package util

type T struct{}
`,
	"sib/uses/uses.go": `package uses

import (
	"example.com/farm/sib/b/util"
	"example.com/farm/sib/far"
	"example.com/farm/sib/odd-dir"
)

type UE struct{}

func (UE) UM(t util.T) util.T { return t }

type UO struct{}

func (*UO) UOdd(o realname.Odd, _ ...*realname.Odd) {}

type UF struct{}

func (UF) UFar(x far.X) map[string]far.X { return nil }

type UI interface{ UIM(util.T) (far.X, error) }
`,
	// via embeds a type of package far, which no generated package ever imports itself: far is
	// only reachable through via (go/packages does not list it among the imports of the loaded
	// packages, its source is not at hand)
	"sib/via/via.go": `package via

import "example.com/farm/sib/far"

type Via struct{ far.Deep2 }

func (Via) ViaOwn(x far.X) {}

type ViaI interface {
	far.FarI
	ViaM() far.X
}
`,
	"sib/far/far.go": `package far

type X struct{}
type Deep2 struct{}

// FarOnly has a comment nobody can read.
func (Deep2) FarOnly(_ X, n int) (X, error) { return X{}, nil }
func (*Deep2) FarPtr()                       {}

type FarI interface{ FarM(x X) }
`,
	"sib/odd-dir/x.go": `package realname

type Odd struct{}
type OddI interface{ Odd(o *Odd) []Odd }
`,
}

// ---------------------------------------------------------------- go/types -> description

type gtree struct {
	Self   *gty     `json:"self"`
	Own    []gmeth  `json:"own"`              // for a named interface: go/types' Method(i) list (the flattened set)
	Fields []string `json:"fields,omitempty"` // names of all struct fields (embedded ones included)
	Emb    []*gtree `json:"emb,omitempty"`
	Iface  *gitree  `json:"iface,omitempty"` // a named interface as declared
}

// gitree: the declaration of a named interface: explicit methods and embedded named interfaces
type gitree struct {
	Self     *gty      `json:"self"`
	Explicit []gmeth   `json:"explicit"`
	Emb      []*gitree `json:"emb,omitempty"`
}

func methOf(f *types.Func) gmeth {
	sig := f.Type().(*types.Signature)
	ps, rs := convSig(sig)
	return gmeth{Name: f.Name(), Ps: ps, Rs: rs, Variadic: sig.Variadic()}
}

// buildITree reads the declaration of a named interface off go/types: ExplicitMethod(i) and
// EmbeddedType(i).  An embedded element that is not a named interface (a union, a type literal)
// is outside the model: the node is then given as go/types' flattened list, with a note.
func buildITree(n *types.Named, it *types.Interface, notes map[string]bool, depth int) *gitree {
	tr := &gitree{Self: conv(n), Explicit: []gmeth{}}
	flat := func() *gitree {
		tr.Explicit, tr.Emb = []gmeth{}, nil
		for i := 0; i < it.NumMethods(); i++ {
			tr.Explicit = append(tr.Explicit, methOf(it.Method(i)))
		}
		return tr
	}
	for i := 0; i < it.NumExplicitMethods(); i++ {
		tr.Explicit = append(tr.Explicit, methOf(it.ExplicitMethod(i)))
	}
	for i := 0; i < it.NumEmbeddeds(); i++ {
		en, ok := types.Unalias(it.EmbeddedType(i)).(*types.Named)
		if !ok || depth > 8 {
			notes["iface_embeds_unhandled_kind"] = true
			return flat()
		}
		eit, ok := en.Underlying().(*types.Interface)
		if !ok {
			notes["iface_embeds_unhandled_kind"] = true
			return flat()
		}
		tr.Emb = append(tr.Emb, buildITree(en, eit, notes, depth+1))
	}
	return tr
}

func conv(t types.Type) *gty {
	switch v := t.(type) {
	case *types.Basic:
		return basic(v.String())
	case *types.Alias:
		return convNamed(v.Obj(), v.TypeArgs())
	case *types.Named:
		return convNamed(v.Obj(), v.TypeArgs())
	case *types.Pointer:
		return ptr(conv(v.Elem()))
	case *types.Slice:
		return slice(conv(v.Elem()))
	case *types.Array:
		return array(v.Len(), conv(v.Elem()))
	case *types.Map:
		return mapOf(conv(v.Key()), conv(v.Elem()))
	case *types.Signature:
		ps, rs := convSig(v)
		return fn(ps, v.Variadic(), rs)
	default:
		return basic(t.String()) // the default branch of ExtractTypeRef prints t.String()
	}
}

func convNamed(obj *types.TypeName, targs *types.TypeList) *gty {
	g := &gty{K: "named", Name: obj.Name()}
	if obj.Pkg() != nil {
		g.Pkg, g.PkgName = obj.Pkg().Path(), obj.Pkg().Name()
	}
	if targs != nil {
		for i := 0; i < targs.Len(); i++ {
			g.Args = append(g.Args, conv(targs.At(i)))
		}
	}
	return g
}

func convTuple(t *types.Tuple) []gpar {
	out := make([]gpar, t.Len())
	for i := 0; i < t.Len(); i++ {
		v := t.At(i)
		out[i] = gpar{
			Name: v.Name(),
			Ctx:  gencommon.TypeImplements(v.Type(), gencommon.ContextInterface),
			Err:  gencommon.TypeImplements(v.Type(), gencommon.ErrorInterface),
			T:    conv(v.Type()),
		}
	}
	return out
}

func convSig(s *types.Signature) ([]gpar, []gpar) {
	return convTuple(s.Params()), convTuple(s.Results())
}

// buildTree reads the embedding tree of a named type off go/types: the methods declared at
// each level (for a named interface: its method set) and the embedded fields T / *T.
func buildTree(n *types.Named, notes map[string]bool, depth int) *gtree {
	tr := &gtree{Self: conv(n), Own: []gmeth{}}
	var ms []*types.Func
	if it, ok := n.Underlying().(*types.Interface); ok {
		for i := 0; i < it.NumMethods(); i++ {
			ms = append(ms, it.Method(i))
		}
		tr.Iface = buildITree(n, it, notes, 0)
	} else {
		for i := 0; i < n.NumMethods(); i++ {
			ms = append(ms, n.Method(i))
		}
	}
	for _, f := range ms {
		tr.Own = append(tr.Own, methOf(f))
		if !f.Exported() && f.Pkg() != nil && depth > 0 {
			notes["unexported_embedded"] = true
		}
	}
	if st, ok := n.Underlying().(*types.Struct); ok && depth < 6 {
		for i := 0; i < st.NumFields(); i++ {
			f := st.Field(i)
			if f.Name() != "_" {
				tr.Fields = append(tr.Fields, f.Name()) // a field is a selector: it hides deeper methods
			}
			if !f.Embedded() {
				continue
			}
			ft := f.Type()
			if p, ok := ft.(*types.Pointer); ok {
				ft = p.Elem()
			}
			switch v := ft.(type) {
			case *types.Named:
				tr.Emb = append(tr.Emb, buildTree(v, notes, depth+1))
			default:
				notes["embedded_unhandled_kind"] = true
			}
		}
	}
	return tr
}

// ---------------------------------------------------------------- Gallina printing

func galPI(p gpar) string {
	return "PI " + gal.Str(p.Name) + " " + gal.Bool(p.Ctx) + " " + gal.Bool(p.Err)
}

func galPars(l []gpar) string {
	return gal.ListOf(l, func(p gpar) string { return gal.Pair(galPI(p), galTy(p.T)) })
}

func galTy(t *gty) string {
	switch t.K {
	case "basic":
		return "TBasic " + gal.Str(t.Name)
	case "named":
		pk := "None"
		if t.Pkg != "" {
			pk = "(Some (" + gal.Str(t.Pkg) + ", " + gal.Str(t.PkgName) + "))"
		}
		return "TNamed " + pk + " " + gal.Str(t.Name) + " " + gal.ListOf(t.Args, galTy)
	case "ptr":
		return "TPtr (" + galTy(t.Elem) + ")"
	case "slice":
		return "TSlice (" + galTy(t.Elem) + ")"
	case "array":
		return "TArray " + gal.N(uint64(t.N)) + " (" + galTy(t.Elem) + ")"
	case "map":
		return "TMap (" + galTy(t.Key) + ") (" + galTy(t.Elem) + ")"
	case "func":
		return "TFunc " + galPars(t.Ps) + " " + gal.Bool(t.Variadic) + " " + galPars(t.Rs)
	}
	panic("bad kind")
}

func galMeth(m gmeth) string {
	return "M " + gal.Str(m.Name) + " " + galPars(m.Ps) + " " + gal.Bool(m.Variadic) + " " + galPars(m.Rs) + " false"
}

func galITree(t *gitree) string {
	return "IT (" + galTy(t.Self) + ") " + gal.ListOf(t.Explicit, galMeth) + " " + gal.ListOf(t.Emb, galITree)
}

// galSrc: the embedding tree as declared (IFaceModel.stree); interfaces are not flattened here —
// the model computes their method set itself (iface_methods)
func galSrc(t *gtree) string {
	if t.Iface != nil {
		return "SIface (" + galITree(t.Iface) + ")"
	}
	sel := make([]string, 0, len(t.Own)+len(t.Fields))
	for _, m := range t.Own {
		sel = append(sel, galMeth(m))
	}
	for _, f := range t.Fields {
		sel = append(sel, "M "+gal.Str(f)+" [] false [] true")
	}
	return "SStruct (" + galTy(t.Self) + ") " + gal.List(sel) + " " + gal.ListOf(t.Emb, galSrc)
}

// gtIfaces: go/types' Method(i) lists of the interface nodes, pre-order (IFaceJudge.src_ifaces)
func gtIfaces(t *gtree, out *[]string) {
	if t.Iface != nil {
		*out = append(*out, gal.ListOf(t.Own, galMeth))
		return
	}
	for _, e := range t.Emb {
		gtIfaces(e, out)
	}
}

// ---------------------------------------------------------------- observation

type jobs struct {
	Name string   `json:"name"`
	Sig  string   `json:"sig"`
	In   []string `json:"in"`
	Out  []string `json:"out"`
}

type jimp struct {
	Alias, Path, Str string
}

type jspec struct {
	Path   string `json:"path"`
	Rename string `json:"rename,omitempty"`
}

type jcase struct {
	Kind     string            `json:"kind"`
	Prog     string            `json:"prog"`
	Target   string            `json:"target"`
	Priv     bool              `json:"priv"`
	Emb      bool              `json:"emb"`
	Self     string            `json:"self"`
	Specs    []jspec           `json:"specs"`
	PkgImps  map[string]string `json:"pkg_imports"`
	Locals   []string          `json:"locals"`
	Tree     *gtree            `json:"tree"`
	Obs      []jobs            `json:"obs"`
	Imports  []jimp            `json:"imports"`
	GoMS     []string          `json:"go_method_set"`
	Compiled bool              `json:"compiled"`
	Errors   []string          `json:"build_errors,omitempty"`
	Rendered string            `json:"rendered"`
	Notes    []string          `json:"notes,omitempty"`
	Panic    string            `json:"panic,omitempty"`    // FindInterface panicked: the message
	PanicIn  string            `json:"panic_in,omitempty"` // innermost gencommon function on the stack
	Desc     *prog             `json:"desc"`
	file     string
	written  []string // names bound by the import lines of the rendered file
}

func (c *jcase) gallina() string {
	pi := make([]string, 0, len(c.PkgImps))
	keys := make([]string, 0, len(c.PkgImps))
	for k := range c.PkgImps {
		keys = append(keys, k)
	}
	sort.Strings(keys)
	for _, k := range keys {
		pi = append(pi, gal.Pair(gal.Str(k), gal.Str(c.PkgImps[k])))
	}
	specs := gal.ListOf(c.Specs, func(s jspec) string {
		return gal.Pair(gal.Str(s.Path), gal.Opt(s.Rename != "", gal.Str(s.Rename)))
	})
	obs := gal.ListOf(c.Obs, func(o jobs) string {
		return "OM " + gal.Str(o.Name) + " " + gal.Str(o.Sig) + " " + gal.ListOf(o.In, gal.Str) + " " + gal.ListOf(o.Out, gal.Str)
	})
	var gts []string
	gtIfaces(c.Tree, &gts)
	imps := gal.ListOf(c.Imports, func(i jimp) string {
		return "(" + gal.Str(i.Alias) + ", " + gal.Str(i.Path) + ", " + gal.Str(i.Str) + ")"
	})
	return "C19 " + gal.Str(c.Self) + " " + gal.List(pi) + " " + specs + " " + gal.ListOf(c.Locals, gal.Str) + " " +
		gal.Bool(c.Priv) + " " + gal.Bool(c.Emb) + " (" + galSrc(c.Tree) + ") " + obs + " " + imps + " " +
		gal.ListOf(c.GoMS, gal.Str) + " " + gal.List(gts) + " " + gal.Bool(c.Compiled)
}

func fatal(f string, a ...any) {
	fmt.Fprintf(os.Stderr, "c19: "+f+"\n", a...)
	os.Exit(3)
}

func writeFile(path, content string) {
	if err := os.MkdirAll(filepath.Dir(path), 0o755); err != nil {
		fatal("%v", err)
	}
	if err := os.WriteFile(path, []byte(content), 0o644); err != nil {
		fatal("%v", err)
	}
}

func names(ps gencommon.Params) []string {
	out := make([]string, len(ps))
	for i, p := range ps {
		out[i] = p.Name
	}
	return out
}

func usesQualifier(text, alias string) bool {
	// a qualifier is followed by an identifier: `v2... T` (a variadic parameter named v2) is not one
	re := regexp.MustCompile(`(^|[^A-Za-z0-9_.])` + regexp.QuoteMeta(alias) + `\.[\pL_]`)
	return re.MatchString(text)
}

// observe runs the real FindInterface for one target under one option combination.
func observe(p *prog, pkgs []*packages.Package, pkg *packages.Package, file string, target string, k int, work string) *jcase {
	fAST, err := gencommon.FindFAST(pkg, file)
	if err != nil {
		fatal("FindFAST %s: %v", file, err)
	}
	ih := gencommon.CalcImportsVerif(pkg, fAST)
	priv, emb := k&1 != 0, k&2 != 0
	var opts []gencommon.ParseIFaceOption
	if priv {
		opts = append(opts, gencommon.IncludePrivate)
	}
	if emb {
		opts = append(opts, gencommon.IncludeEmbedded)
	}
	c := &jcase{Kind: p.Kind, Prog: p.Name, Target: target, Priv: priv, Emb: emb, Self: pkg.PkgPath,
		PkgImps: map[string]string{}, Desc: p, Obs: []jobs{}, Imports: []jimp{}, GoMS: []string{}, Specs: []jspec{}}
	for _, s := range fAST.Imports {
		js := jspec{Path: strings.Trim(s.Path.Value, `"`)}
		if s.Name != nil {
			js.Rename = s.Name.Name
		}
		c.Specs = append(c.Specs, js)
	}
	for path, ip := range pkg.Imports {
		c.PkgImps[path] = ip.Name
	}
	c.Locals = pkg.Types.Scope().Names()
	obj := pkg.Types.Scope().Lookup(target)
	if obj == nil {
		fatal("target %s.%s not found", p.Name, target)
	}
	nt := obj.Type().(*types.Named)
	notes := map[string]bool{}
	c.Tree = buildTree(nt, notes, 0)
	for n := range notes {
		c.Notes = append(c.Notes, n)
	}
	sort.Strings(c.Notes)
	ms := types.NewMethodSet(types.NewPointer(nt))
	for i := 0; i < ms.Len(); i++ {
		c.GoMS = append(c.GoMS, ms.At(i).Obj().Name())
	}
	sort.Strings(c.GoMS)

	markUnloaded(c, pkgs)
	iface, err := findInterface(c, ih, pkgs, pkg.PkgPath, target, opts)
	if c.Panic != "" {
		// no interface at all: judged as "does not compile and fit" (nothing is rendered)
		c.Compiled = false
		c.Errors = append(c.Errors, "FindInterface panicked: "+c.Panic+" (in "+c.PanicIn+")")
		return c
	}
	if err != nil {
		fatal("FindInterface %s.%s: %v", p.Name, target, err)
	}
	var sigs []string
	for _, m := range iface.Methods {
		c.Obs = append(c.Obs, jobs{Name: m.Name, Sig: m.Signature(), In: names(m.Input), Out: names(m.Output)})
		sigs = append(sigs, m.Signature())
	}
	sort.Slice(c.Obs, func(i, j int) bool { return c.Obs[i].Name < c.Obs[j].Name })
	sort.Strings(sigs)
	for _, i := range ih.GetActive() {
		c.Imports = append(c.Imports, jimp{i.Alias, i.PkgPath, i.ImportString()})
	}

	// the rendered interface, inside the target package; only the active imports the text
	// refers to are written (the generators' goimports pass removes unused ones, it never
	// has to add one when the property holds)
	all := strings.Join(sigs, "\n")
	var b strings.Builder
	b.WriteString("package " + p.Name + "\n\n")
	var imps []string
	for _, i := range c.Imports {
		if usesQualifier(all, i.Alias) {
			imps = append(imps, "\t"+i.Str+"\n")
			c.written = append(c.written, i.Alias)
		}
	}
	if len(imps) > 0 {
		b.WriteString("import (\n" + strings.Join(imps, "") + ")\n\n")
	}
	rn := fmt.Sprintf("Rendered%s%d", target, k)
	b.WriteString("type " + rn + " interface {\n")
	for _, s := range sigs {
		b.WriteString("\t" + s + "\n")
	}
	b.WriteString("}\n\nvar _ " + rn + " = (*" + target + ")(nil)\n")
	c.Rendered = b.String()
	c.file = fmt.Sprintf("%s/rendered_%s_%d.go", p.Name, target, k)
	c.Compiled = true
	if _, err := parser.ParseFile(token.NewFileSet(), c.file, c.Rendered, 0); err != nil {
		// a syntax error would hide the other variants of the package from the compiler
		c.Compiled = false
		c.Errors = append(c.Errors, "syntax: "+err.Error())
	} else {
		writeFile(filepath.Join(work, c.file), c.Rendered)
	}
	return c
}

var reClash = regexp.MustCompile(`^(\w+) (?:already declared through import of package|redeclared in this block)`)

var reFrame = regexp.MustCompile(`gencommon\.(?:\(\*?\w+\)\.|\w+\.)?(\w+)\(`)

// findInterface calls the real FindInterface; a panic becomes part of the observation.
func findInterface(c *jcase, ih *gencommon.ImportHandler, pkgs []*packages.Package, pkgPath, target string,
	opts []gencommon.ParseIFaceOption) (iface *gencommon.Interface, err error) {
	defer func() {
		if r := recover(); r != nil {
			c.Panic = fmt.Sprint(r)
			c.PanicIn = "?"
			st := string(debug.Stack())
			if i := strings.Index(st, "panic("); i >= 0 {
				st = st[i:]
			}
			if m := reFrame.FindStringSubmatch(st); m != nil {
				c.PanicIn = m[1]
			}
		}
	}()
	return gencommon.FindInterface(ih, pkgs, pkgPath, target, opts...)
}

// markUnloaded notes the embedded types whose package is not among the loaded packages and their
// direct imports (no source, hence no comments, for such a type), and those without any package
// (the predeclared error).
func markUnloaded(c *jcase, pkgs []*packages.Package) {
	loaded := map[string]bool{}
	for _, p := range pkgs {
		loaded[p.PkgPath] = true
		for path := range p.Imports {
			loaded[path] = true
		}
	}
	var walk func(t *gtree, depth int)
	walk = func(t *gtree, depth int) {
		if depth > 0 && t.Self.K == "named" {
			if t.Self.Pkg == "" {
				c.Notes = append(c.Notes, "embeds_predeclared_type")
			} else if !loaded[t.Self.Pkg] {
				c.Notes = append(c.Notes, "embedded_type_of_unloaded_package")
			}
		}
		for _, e := range t.Emb {
			walk(e, depth+1)
		}
	}
	walk(c.Tree, 0)
	sort.Strings(c.Notes)
	c.Notes = dedup(c.Notes)
}

func dedup(l []string) []string {
	var out []string
	for i, x := range l {
		if i == 0 || x != l[i-1] {
			out = append(out, x)
		}
	}
	return out
}

func setenv() {
	for k, v := range map[string]string{"GOWORK": "off", "GOFLAGS": "-mod=mod", "GOPROXY": "off",
		"GOSUMDB": "off", "GOTOOLCHAIN": "local"} {
		os.Setenv(k, v)
	}
}

func runFarm(progs []*prog, work string, out *gal.Out) {
	setenv()
	if err := os.MkdirAll(work, 0o755); err != nil {
		fatal("%v", err)
	}
	writeFile(filepath.Join(work, "go.mod"), "module "+modPath+"\n\ngo 1.23.0\n")
	for rel, src := range sibSources {
		writeFile(filepath.Join(work, rel), src)
	}
	var dirs []string
	for _, p := range progs {
		for name, src := range sources(p) {
			writeFile(filepath.Join(work, p.Name, name), src)
		}
		dirs = append(dirs, filepath.Join(work, p.Name))
	}
	if err := os.Chdir(work); err != nil {
		fatal("%v", err)
	}
	first := filepath.Join(dirs[0], "a.go")
	pkgs, _, _, _, err := gencommon.LoadPackages(first, dirs[1:]...)
	if err != nil {
		fatal("LoadPackages: %v", err)
	}
	nerr := 0
	packages.Visit(pkgs, nil, func(p *packages.Package) {
		for _, e := range p.Errors {
			fmt.Fprintf(os.Stderr, "c19: farm package %s: %v\n", p.PkgPath, e)
			nerr++
		}
	})
	if nerr > 0 {
		fatal("the generated farm does not type-check (%d errors): generator fault", nerr)
	}
	var cases []*jcase
	byFile := map[string]*jcase{}
	for _, p := range progs {
		file := filepath.Join(work, p.Name, "a.go")
		pkg, err := gencommon.FindPackageWithFile(pkgs, file)
		if err != nil {
			fatal("%v", err)
		}
		checkIntent(p, pkg)
		for _, target := range p.Targets {
			for k := 0; k < 4; k++ {
				c := observe(p, pkgs, pkg, file, target, k, work)
				cases = append(cases, c)
				if c.file != "" {
				byFile[c.file] = c
			}
			}
		}
	}
	// one compiler run over the whole farm; -e lifts the 10-error limit per package
	cmd := exec.Command("go", "build", "-gcflags=-e", "./...")
	cmd.Dir = work
	outb, _ := cmd.CombinedOutput()
	re := regexp.MustCompile(`^(?:\./)?([^:\s]+\.go):(\d+):(\d+): (.*)$`)
	for _, line := range strings.Split(string(outb), "\n") {
		m := re.FindStringSubmatch(strings.TrimSpace(line))
		if m == nil {
			if strings.TrimSpace(line) != "" && !strings.HasPrefix(line, "#") {
				fmt.Fprintf(os.Stderr, "c19: go build: %s\n", line)
			}
			continue
		}
		c := byFile[m[1]]
		if c == nil {
			// a package-level declaration of the program clashing with an import line of a rendered
			// file is reported at the declaration: blame the rendered files that bind that name
			if cl := reClash.FindStringSubmatch(m[4]); cl != nil {
				blamed := 0
				for f, bc := range byFile {
					if filepath.Dir(f) != filepath.Dir(m[1]) {
						continue
					}
					for _, a := range bc.written {
						if a == cl[1] {
							bc.Compiled = false
							if len(bc.Errors) < 4 {
								bc.Errors = append(bc.Errors, m[4])
							}
							blamed++
						}
					}
				}
				if blamed > 0 {
					continue
				}
			}
			fatal("compiler error outside the rendered files (generator fault): %s", line)
		}
		c.Compiled = false
		if len(c.Errors) < 4 {
			c.Errors = append(c.Errors, m[4])
		}
	}
	for _, c := range cases {
		out.Case(c.gallina(), c)
	}
}

// checkIntent cross-checks the generator's description of the own methods against what
// go/types reports (a difference is a fault of the harness, not of the code under test).
func checkIntent(p *prog, pkg *packages.Package) {
	for _, s := range p.Structs {
		obj := pkg.Types.Scope().Lookup(s.Name)
		if obj == nil {
			fatal("intent: %s.%s missing", p.Name, s.Name)
		}
		nt := obj.Type().(*types.Named)
		got := map[string]string{}
		for i := 0; i < nt.NumMethods(); i++ {
			f := nt.Method(i)
			sig := f.Type().(*types.Signature)
			ps, rs := convSig(sig)
			got[f.Name()] = canonSig(ps, sig.Variadic(), rs)
		}
		if len(got) != len(s.Methods) {
			fatal("intent: %s.%s has %d methods, described %d", p.Name, s.Name, len(got), len(s.Methods))
		}
		for _, m := range s.Methods {
			want := canonSig(m.Ps, m.Variadic, m.Rs)
			if got[m.Name] != want {
				fatal("intent: %s.%s.%s: go/types %q, described %q", p.Name, s.Name, m.Name, got[m.Name], want)
			}
		}
	}
}

func main() {
	seed := flag.Uint64("seed", 1, "PRNG seed")
	prefix := flag.String("out", "c19", "output prefix")
	mode := flag.String("mode", "random", "corpus|random|shapes|progs")
	n := flag.Int("n", 40, "number of random programs")
	work := flag.String("work", "", "directory for the scratch farm module")
	progsFile := flag.String("progs", "", "JSON list of program descriptions (mode progs)")
	extraNames := flag.String("names", "", "comma-separated parameter names added to the user-name pool (from literals of the source under test)")
	flag.Parse()
	for _, n := range strings.Split(*extraNames, ",") {
		if n != "" {
			// twice, so that they are drawn as often as the rest of the pool together would suggest
			trickyParamNames = append(trickyParamNames, n, n)
		}
	}
	if *work == "" {
		d, err := os.MkdirTemp("", "c19farm-")
		if err != nil {
			fatal("%v", err)
		}
		defer os.RemoveAll(d)
		*work = d
	}
	abs, err := filepath.Abs(*prefix)
	if err != nil {
		fatal("%v", err)
	}
	r := gal.NewRand(*seed)
	out := gal.NewOut(abs)
	defer out.Close()
	var progs []*prog
	switch *mode {
	case "corpus":
		progs = corpus()
	case "shapes":
		for i := 0; i < *n; i++ {
			if i%5 == 4 {
				progs = append(progs, aliasClashProgram(r, fmt.Sprintf("s%d", i), "shapes", -1))
			} else if i%5 == 3 {
				progs = append(progs, ifaceUnionProgram(r, fmt.Sprintf("s%d", i), "shapes", -1))
			} else if i%5 == 2 {
				progs = append(progs, embedNameProgram(r, fmt.Sprintf("s%d", i), "shapes", nil))
			} else if i%5 == 1 {
				progs = append(progs, fieldShadowProgram(r, fmt.Sprintf("s%d", i), "shapes"))
			} else {
				progs = append(progs, shapeProgram(r, fmt.Sprintf("s%d", i), "shapes"))
			}
		}
	case "progs":
		b, err := os.ReadFile(*progsFile)
		if err != nil {
			fatal("%v", err)
		}
		if err := json.Unmarshal(b, &progs); err != nil {
			fatal("%v", err)
		}
	default:
		for i := 0; i < *n; i++ {
			progs = append(progs, genProgram(r, fmt.Sprintf("p%d", i)))
		}
	}
	if len(progs) == 0 {
		return
	}
	runFarm(progs, *work, out)
}

var _ = rand.IntN
