// xlate_genum_traits — (T) tie of the genum properties C05 / C12, Go side: genum/gen/traits.go.
//
// Regenerates from the current tree (go/parser, go/ast only):
//
//   - the table of TraitDesc.extractUnderlying: go/types basic kind -> underlying family, the result
//     for a non-basic underlying type and the fall-through result;
//   - hasUnderlying: how the (family, ok) pair is compared with the family asked for;
//   - for every GetParsableUnderlying<K>For<Codec> method the family constant and the excluding
//     predicate it passes to getParsableUnderlying; for every GetParsable<Codec>Unmarshalable method its
//     predicate; for the implements* predicates the interface (package path, name) they look up;
//   - the filter condition of getParsableUnderlying and of the GetParsable*Unmarshalable methods as a
//     set of atoms (Parsable, hasUnderlying(u), !excluding, predicate), whether written as a range loop
//     with an `if`, or through a shared helper taking a closure / function value (inlined).
//
// The Gallina file carries data only; coq/ties/Tie_GEnumTraits.v proves, by case analysis over the
// finite domains, that GEnumModel.extract_underlying / family / family_own are these functions.
// Whatever is outside the recognised shapes is printed as an "opaque" marker and breaks the tie.
//
//	xlate_genum_traits -repo DIR -out FILE
package main

import (
	"bytes"
	"flag"
	"fmt"
	"go/ast"
	"go/printer"
	"go/token"
	"os"
	"path/filepath"
	"sort"
	"strings"

	"gtverif/internal/srcset"
)

func die(format string, a ...any) {
	fmt.Fprintf(os.Stderr, "xlate_genum_traits: "+format+"\n", a...)
	os.Exit(1)
}

var fset = token.NewFileSet()

func show(n ast.Node) string {
	var b bytes.Buffer
	printer.Fprint(&b, fset, n)
	s := strings.Join(strings.Fields(b.String()), " ")
	if len(s) > 200 {
		s = s[:200] + "…"
	}
	return s
}

func gstr(s string) string { return "\"" + strings.ReplaceAll(s, "\"", "\"\"") + "\"" }

func isIdent(e ast.Expr, name string) bool {
	id, ok := e.(*ast.Ident)
	return ok && id.Name == name
}

func selName(e ast.Expr) string {
	switch v := e.(type) {
	case *ast.Ident:
		return v.Name
	case *ast.SelectorExpr:
		return selName(v.X) + "." + v.Sel.Name
	case *ast.ParenExpr:
		return selName(v.X)
	}
	return ""
}

type funcs map[string]*ast.FuncDecl // "Recv.Name" or "Name"

func recvName(fd *ast.FuncDecl) string {
	if fd.Recv == nil || len(fd.Recv.List) != 1 {
		return ""
	}
	t := fd.Recv.List[0].Type
	if st, ok := t.(*ast.StarExpr); ok {
		t = st.X
	}
	return selName(t)
}

// ---------------------------------------------------------------- extractUnderlying

func extractTable(fd *ast.FuncDecl) (rows [][2]string, nonBasic, fall string, ok bool) {
	b := fd.Body.List
	if len(b) != 3 && len(b) != 4 {
		return nil, "", "", false
	}
	// v, ok := td.Type.Underlying().(*types.Basic)
	a, isA := b[0].(*ast.AssignStmt)
	if !isA || a.Tok != token.DEFINE || len(a.Lhs) != 2 || len(a.Rhs) != 1 {
		return nil, "", "", false
	}
	ta, isTA := a.Rhs[0].(*ast.TypeAssertExpr)
	if !isTA || show(ta.Type) != "*types.Basic" || !strings.HasSuffix(show(ta.X), ".Type.Underlying()") {
		return nil, "", "", false
	}
	v, okv := a.Lhs[0].(*ast.Ident)
	okName, oko := a.Lhs[1].(*ast.Ident)
	if !okv || !oko {
		return nil, "", "", false
	}
	// if !ok { return X, false }
	pair := func(s ast.Stmt) (string, string, bool) {
		r, isR := s.(*ast.ReturnStmt)
		if !isR || len(r.Results) != 2 {
			return "", "", false
		}
		return selName(r.Results[0]), selName(r.Results[1]), selName(r.Results[0]) != ""
	}
	is, isIf := b[1].(*ast.IfStmt)
	if !isIf || is.Init != nil || is.Else != nil || len(is.Body.List) != 1 {
		return nil, "", "", false
	}
	u, isU := is.Cond.(*ast.UnaryExpr)
	if !isU || u.Op != token.NOT || !isIdent(u.X, okName.Name) {
		return nil, "", "", false
	}
	nb, nbOK, good := pair(is.Body.List[0])
	if !good || nbOK != "false" {
		return nil, "", "", false
	}
	// switch [k := v.Kind();] v.Kind() | k { case types.A, types.B: return X, true … [default: return F, true] }
	sw, isSw := b[2].(*ast.SwitchStmt)
	if !isSw {
		return nil, "", "", false
	}
	kindCall := v.Name + ".Kind()"
	tagOK := sw.Init == nil && show(sw.Tag) == kindCall
	if ini, isDef := sw.Init.(*ast.AssignStmt); isDef && ini.Tok == token.DEFINE && len(ini.Lhs) == 1 && len(ini.Rhs) == 1 &&
		show(ini.Rhs[0]) == kindCall && show(sw.Tag) == show(ini.Lhs[0]) {
		tagOK = true
	}
	if !tagOK {
		return nil, "", "", false
	}
	seen := map[string]bool{}
	hasDefault := false
	for _, c := range sw.Body.List {
		cc := c.(*ast.CaseClause)
		if len(cc.Body) != 1 {
			return nil, "", "", false
		}
		fam, okB, good := pair(cc.Body[0])
		if !good || okB != "true" {
			return nil, "", "", false
		}
		if cc.List == nil {
			fall, hasDefault = fam, true
			continue
		}
		for _, e := range cc.List {
			k := selName(e)
			if !strings.HasPrefix(k, "types.") || seen[k] {
				return nil, "", "", false
			}
			seen[k] = true
			rows = append(rows, [2]string{strings.TrimPrefix(k, "types."), fam})
		}
	}
	switch {
	case len(b) == 4 && !hasDefault:
		fl, flOK, good := pair(b[3])
		if !good || flOK != "true" {
			return nil, "", "", false
		}
		fall = fl
	case len(b) == 3 && hasDefault:
	default:
		return nil, "", "", false
	}
	// the clauses of a switch over distinct constants are exclusive: the rows are a set
	sort.Slice(rows, func(i, j int) bool { return rows[i][0] < rows[j][0] })
	return rows, nb, fall, true
}

// hasUnderlying: `x, ok := td.extractUnderlying(); if !ok { return false }; return x == u`
// or `x, ok := td.extractUnderlying(); return ok && x == u`
func hasUnderlyingForm(fd *ast.FuncDecl) string {
	b := fd.Body.List
	if len(b) < 2 || len(fd.Type.Params.List) != 1 || len(fd.Type.Params.List[0].Names) != 1 {
		return "HuOpaque " + gstr(show(fd.Body))
	}
	param := fd.Type.Params.List[0].Names[0].Name
	a, ok := b[0].(*ast.AssignStmt)
	if !ok || a.Tok != token.DEFINE || len(a.Lhs) != 2 || len(a.Rhs) != 1 || !strings.HasSuffix(show(a.Rhs[0]), ".extractUnderlying()") {
		return "HuOpaque " + gstr(show(fd.Body))
	}
	x, okName := selName(a.Lhs[0]), selName(a.Lhs[1])
	eq := func(e ast.Expr) bool {
		be, ok := e.(*ast.BinaryExpr)
		return ok && be.Op == token.EQL && (isIdent(be.X, x) && isIdent(be.Y, param) || isIdent(be.X, param) && isIdent(be.Y, x))
	}
	switch len(b) {
	case 2:
		if r, ok := b[1].(*ast.ReturnStmt); ok && len(r.Results) == 1 {
			if be, ok := r.Results[0].(*ast.BinaryExpr); ok && be.Op == token.LAND &&
				(isIdent(be.X, okName) && eq(be.Y) || isIdent(be.Y, okName) && eq(be.X)) {
				return "HuOkAndEq"
			}
		}
	case 3:
		is, ok1 := b[1].(*ast.IfStmt)
		r, ok2 := b[2].(*ast.ReturnStmt)
		if ok1 && ok2 && is.Init == nil && is.Else == nil && len(is.Body.List) == 1 && len(r.Results) == 1 && eq(r.Results[0]) {
			if u, ok := is.Cond.(*ast.UnaryExpr); ok && u.Op == token.NOT && isIdent(u.X, okName) {
				if rr, ok := is.Body.List[0].(*ast.ReturnStmt); ok && len(rr.Results) == 1 && isIdent(rr.Results[0], "false") {
					return "HuOkAndEq"
				}
			}
		}
	}
	return "HuOpaque " + gstr(show(fd.Body))
}

// ---------------------------------------------------------------- filters

// env maps identifiers to what they stand for while inlining
type env struct {
	elem   map[string]bool     // expressions (printed) denoting the element under test: t, s[i], &t, &s[i]
	params map[string]string   // function-valued parameters -> atom name ("excluding") or bound function ident
	clos   map[string]*closure // parameters bound to closures
}

type closure struct {
	fn  *ast.FuncLit
	env *env
}

func (e *env) isElem(x ast.Expr) bool {
	s := show(x)
	return e.elem[s] || e.elem[strings.TrimPrefix(s, "&")] || (strings.HasPrefix(s, "*") && e.elem[strings.TrimPrefix(s, "*")])
}

// atoms flattens a condition into a set of atoms; ok = false when something is not understood
func atoms(fs funcs, cond ast.Expr, e *env, depth int) ([]string, bool) {
	switch v := cond.(type) {
	case *ast.ParenExpr:
		return atoms(fs, v.X, e, depth)
	case *ast.BinaryExpr:
		if v.Op != token.LAND {
			return nil, false
		}
		a, ok1 := atoms(fs, v.X, e, depth)
		b, ok2 := atoms(fs, v.Y, e, depth)
		return append(a, b...), ok1 && ok2
	case *ast.SelectorExpr:
		if v.Sel.Name == "Parsable" && e.isElem(v.X) {
			return []string{"AtParsable"}, true
		}
	case *ast.UnaryExpr:
		if v.Op == token.NOT {
			if c, ok := v.X.(*ast.CallExpr); ok && len(c.Args) == 1 && e.isElem(c.Args[0]) {
				if id, ok := c.Fun.(*ast.Ident); ok {
					if what, ok := e.params[id.Name]; ok {
						return []string{"AtNot " + gstr(what)}, true
					}
				}
			}
		}
	case *ast.CallExpr:
		// x.hasUnderlying(u)
		if sel, ok := v.Fun.(*ast.SelectorExpr); ok && sel.Sel.Name == "hasUnderlying" && e.isElem(sel.X) && len(v.Args) == 1 {
			if what, ok := e.params[selName(v.Args[0])]; ok {
				return []string{"AtHasUnderlying " + gstr(what)}, true
			}
		}
		if id, ok := v.Fun.(*ast.Ident); ok && len(v.Args) == 1 && e.isElem(v.Args[0]) {
			if cl, ok := e.clos[id.Name]; ok && depth < 4 {
				// inline the closure: single `return EXPR`
				if len(cl.fn.Body.List) == 1 && len(cl.fn.Type.Params.List) == 1 && len(cl.fn.Type.Params.List[0].Names) == 1 {
					if r, ok := cl.fn.Body.List[0].(*ast.ReturnStmt); ok && len(r.Results) == 1 {
						inner := &env{elem: map[string]bool{cl.fn.Type.Params.List[0].Names[0].Name: true}, params: cl.env.params, clos: cl.env.clos}
						return atoms(fs, r.Results[0], inner, depth+1)
					}
				}
				return nil, false
			}
			if what, ok := e.params[id.Name]; ok {
				return []string{"AtPred " + gstr(what)}, true
			}
			if _, ok := fs[id.Name]; ok && strings.HasPrefix(id.Name, "implements") {
				return []string{"AtPred " + gstr(id.Name)}, true
			}
		}
	}
	return nil, false
}

// filterOf analyses a method `func (s TraitDescs) F(params) TraitDescs` whose body either is the
// filter loop or delegates to another method of the receiver; args maps the parameters of F to
// what the caller passed (atom names, function identifiers, closures)
func filterOf(fs funcs, fd *ast.FuncDecl, e *env, depth int) ([]string, bool) {
	recv := ""
	if fd.Recv != nil && len(fd.Recv.List[0].Names) == 1 {
		recv = fd.Recv.List[0].Names[0].Name
	}
	b := fd.Body.List
	// delegation: return s.G(args…)
	if len(b) == 1 {
		if r, ok := b[0].(*ast.ReturnStmt); ok && len(r.Results) == 1 && depth < 4 {
			if c, ok := r.Results[0].(*ast.CallExpr); ok {
				if sel, ok := c.Fun.(*ast.SelectorExpr); ok && isIdent(sel.X, recv) {
					g, ok := fs["TraitDescs."+sel.Sel.Name]
					if !ok {
						return nil, false
					}
					inner := &env{elem: map[string]bool{}, params: map[string]string{}, clos: map[string]*closure{}}
					i := 0
					for _, f := range g.Type.Params.List {
						for _, n := range f.Names {
							if i >= len(c.Args) {
								return nil, false
							}
							switch a := c.Args[i].(type) {
							case *ast.FuncLit:
								inner.clos[n.Name] = &closure{a, e}
							case *ast.Ident:
								if what, ok := e.params[a.Name]; ok {
									inner.params[n.Name] = what
								} else if cl, ok := e.clos[a.Name]; ok {
									inner.clos[n.Name] = cl
								} else {
									inner.params[n.Name] = a.Name
								}
							default:
								return nil, false
							}
							i++
						}
					}
					return filterOf(fs, g, inner, depth+1)
				}
			}
		}
		return nil, false
	}
	// out := make(…); for … range s { if COND { out = append(out, ELEM) } }; return out
	if len(b) != 3 {
		return nil, false
	}
	a, ok := b[0].(*ast.AssignStmt)
	if !ok || a.Tok != token.DEFINE || len(a.Lhs) != 1 || len(a.Rhs) != 1 {
		return nil, false
	}
	out := selName(a.Lhs[0])
	if c, ok := a.Rhs[0].(*ast.CallExpr); !ok || !isIdent(c.Fun, "make") {
		return nil, false
	}
	rg, ok := b[1].(*ast.RangeStmt)
	if !ok || !isIdent(rg.X, recv) || len(rg.Body.List) != 1 {
		return nil, false
	}
	elem := ""
	switch {
	case rg.Value != nil && isIdent(rg.Key, "_"):
		elem = selName(rg.Value)
	case rg.Value == nil && rg.Key != nil:
		elem = recv + "[" + selName(rg.Key) + "]"
	default:
		return nil, false
	}
	is, ok := rg.Body.List[0].(*ast.IfStmt)
	if !ok || is.Init != nil || is.Else != nil || len(is.Body.List) != 1 {
		return nil, false
	}
	ap, ok := is.Body.List[0].(*ast.AssignStmt)
	if !ok || ap.Tok != token.ASSIGN || len(ap.Lhs) != 1 || !isIdent(ap.Lhs[0], out) || len(ap.Rhs) != 1 {
		return nil, false
	}
	if c, ok := ap.Rhs[0].(*ast.CallExpr); !ok || !isIdent(c.Fun, "append") || len(c.Args) != 2 || !isIdent(c.Args[0], out) || show(c.Args[1]) != elem {
		return nil, false
	}
	if r, ok := b[2].(*ast.ReturnStmt); !ok || len(r.Results) != 1 || !isIdent(r.Results[0], out) {
		return nil, false
	}
	e.elem[elem] = true
	return atoms(fs, is.Cond, e, depth)
}

func main() {
	repo := flag.String("repo", "/repo", "root of the tree")
	out := flag.String("out", "", "output .v file")
	flag.Parse()
	if *out == "" {
		die("-out required")
	}
	// the whole package genum/gen as the compiler selects it (build constraints, every file): a function declared
	// twice (in files with complementary constraints) or moved to a sibling file is found / refused here
	pk, err := srcset.Load(filepath.Join(*repo, "genum", "gen"), "verif")
	if err != nil {
		die("%v", err)
	}
	fset = pk.Fset
	if len(pk.Excluded) > 0 {
		die("unsupported: files of genum/gen excluded by build constraints: %v", pk.Excluded)
	}
	fs := funcs{}
	for _, file := range pk.Files {
		for _, d := range file.Decls {
			if fd, ok := d.(*ast.FuncDecl); ok && fd.Body != nil {
				key := fd.Name.Name
				if r := recvName(fd); r != "" {
					key = r + "." + fd.Name.Name
				}
				if _, dup := fs[key]; dup && key != "init" {
					die("unsupported: %s is declared more than once in genum/gen", key)
				}
				fs[key] = fd
			}
		}
	}
	var b strings.Builder
	b.WriteString("(* GENERATED by harness/cmd/xlate_genum_traits from genum/gen/traits.go — do not edit *)\n")
	b.WriteString("From Coq Require Import String List Bool.\nFrom GT Require Import GEnumModel.\nImport ListNotations.\nLocal Open Scope string_scope.\nLocal Open Scope list_scope.\n\n")

	// extractUnderlying
	if fd, ok := fs["TraitDesc.extractUnderlying"]; ok {
		if rows, nb, fl, ok := extractTable(fd); ok {
			b.WriteString("Definition gen_underlying_table : list (string * string) :=\n  [")
			for i, r := range rows {
				if i > 0 {
					b.WriteString(";\n   ")
				}
				fmt.Fprintf(&b, "(%s, %s)", gstr(r[0]), gstr(r[1]))
			}
			fmt.Fprintf(&b, "].\nDefinition gen_underlying_nonbasic : string := %s.\nDefinition gen_underlying_fallthrough : string := %s.\n\n", gstr(nb), gstr(fl))
		} else {
			fmt.Fprintf(&b, "Definition gen_underlying_table : list (string * string) := [(%s, \"opaque\")].\nDefinition gen_underlying_nonbasic : string := \"opaque\".\nDefinition gen_underlying_fallthrough : string := \"opaque\".\n\n", gstr(show(fd.Body)))
		}
	} else {
		die("TraitDesc.extractUnderlying not found")
	}
	if fd, ok := fs["TraitDesc.hasUnderlying"]; ok {
		fmt.Fprintf(&b, "Definition gen_has_underlying : hu_form := %s.\n\n", hasUnderlyingForm(fd))
	} else {
		die("TraitDesc.hasUnderlying not found")
	}

	// getters
	var names []string
	for k := range fs {
		if strings.HasPrefix(k, "TraitDescs.GetParsable") {
			names = append(names, k)
		}
	}
	sort.Strings(names)
	b.WriteString("Definition gen_getters : list (string * list filter_atom) :=\n  [")
	for i, k := range names {
		fd := fs[k]
		e := &env{elem: map[string]bool{}, params: map[string]string{}, clos: map[string]*closure{}}
		at, ok := filterOf(fs, fd, e, 0)
		if i > 0 {
			b.WriteString(";\n   ")
		}
		if !ok {
			fmt.Fprintf(&b, "(%s, [AtOpaque %s])", gstr(fd.Name.Name), gstr(show(fd.Body)))
			continue
		}
		fmt.Fprintf(&b, "(%s, [%s])", gstr(fd.Name.Name), strings.Join(at, "; "))
	}
	b.WriteString("].\n\n")

	// implements*: the interface they look up
	var impl []string
	for k := range fs {
		if strings.HasPrefix(k, "implements") {
			impl = append(impl, k)
		}
	}
	sort.Strings(impl)
	b.WriteString("Definition gen_implements : list (string * (string * string)) :=\n  [")
	for i, k := range impl {
		pkg, name := "opaque", show(fs[k].Body)
		ast.Inspect(fs[k].Body, func(n ast.Node) bool {
			if c, ok := n.(*ast.CallExpr); ok && strings.HasSuffix(selName(c.Fun), "FindIFaceDef") && len(c.Args) == 2 {
				l1, ok1 := c.Args[0].(*ast.BasicLit)
				l2, ok2 := c.Args[1].(*ast.BasicLit)
				if ok1 && ok2 {
					pkg, name = strings.Trim(l1.Value, "\""), strings.Trim(l2.Value, "\"")
				}
			}
			return true
		})
		// the last statement must return <Implements>(td.Type, iFace)
		last := fs[k].Body.List[len(fs[k].Body.List)-1]
		if r, ok := last.(*ast.ReturnStmt); !ok || len(r.Results) != 1 || !strings.HasSuffix(show(r.Results[0]), "(td.Type, iFace)") ||
			!(strings.HasPrefix(show(r.Results[0]), "gencommon.TypeImplements") || strings.HasPrefix(show(r.Results[0]), "types.Implements")) {
			pkg = "opaque"
		}
		if i > 0 {
			b.WriteString(";\n   ")
		}
		fmt.Fprintf(&b, "(%s, (%s, %s))", gstr(k), gstr(pkg), gstr(name))
	}
	b.WriteString("].\n\n")
	// … unless the trait type is an enum generated by the same invocation: `if td.generated != nil { return td.generated.F }`
	b.WriteString("Definition gen_implements_generated : list (string * string) :=\n  [")
	first := true
	for _, k := range impl {
		for _, st := range fs[k].Body.List {
			is, ok := st.(*ast.IfStmt)
			if !ok || is.Init != nil || is.Else != nil || show(is.Cond) != "td.generated != nil" || len(is.Body.List) != 1 {
				continue
			}
			if r, ok := is.Body.List[0].(*ast.ReturnStmt); ok && len(r.Results) == 1 && strings.HasPrefix(show(r.Results[0]), "td.generated.") {
				if !first {
					b.WriteString("; ")
				}
				first = false
				fmt.Fprintf(&b, "(%s, %s)", gstr(k), gstr(strings.TrimPrefix(show(r.Results[0]), "td.generated.")))
			}
		}
	}
	b.WriteString("].\n")
	if err := os.WriteFile(*out, []byte(b.String()), 0o644); err != nil {
		die("%v", err)
	}
}
