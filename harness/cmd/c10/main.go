// c10 — runs histories of Get/MustGet/GetOrDefault against one shared gconfig.Config of the
// current tree and records, per request, the outcome on the shared Config and the outcome of
// the same request on a Config freshly loaded from the same bytes.
//
//	c10 -seed N -out PREFIX -mode corpus|random|concurrent|stress|replay -n COUNT [-len L] [-g G] [-in FILE]
//
// Keys include prefixes/extensions of each other and keys ending in fragments of Go type
// names (for every pair of result types whose %T names are in suffix relation, name(T1) =
// P + name(T2), the document holds keys k and k+P); result types: sized integers, floats,
// string, bool, pointers, slices, maps, structs, time.Duration, `any`, named types and two
// distinct local types with the same name.  concurrent: G goroutines issue their requests
// against one Config (run the binary built with -race for the race detector).
package main

import (
	"encoding/json"
	"flag"
	"fmt"
	"math/rand/v2"
	"os"
	"runtime"
	"sort"
	"strings"
	"sync"
	"time"

	"github.com/drshriveer/gtools/gconfig"
	"gopkg.in/yaml.v3"

	"gtverif/cmd/c03/gcx"
	"gtverif/internal/gal"
)

// ---------------------------------------------------------------- outcomes

type outcome struct {
	Kind string `json:"kind"` // val | nil | err | mustpanic | panic
	Val  string `json:"val,omitempty"`
	Msg  string `json:"msg,omitempty"`
}

func render(v any) outcome {
	if v == nil {
		return outcome{Kind: "nil"}
	}
	b, err := json.Marshal(v)
	if err != nil {
		return outcome{Kind: "val", Val: fmt.Sprintf("%v", v)}
	}
	return outcome{Kind: "val", Val: string(b)}
}

func guarded(f func() outcome) (o outcome) {
	defer func() {
		if r := recover(); r != nil {
			if _, isRuntime := r.(runtime.Error); isRuntime {
				o = outcome{Kind: "panic", Msg: fmt.Sprint(r)}
			} else if _, isErr := r.(error); isErr {
				o = outcome{Kind: "mustpanic"}
			} else {
				o = outcome{Kind: "panic", Msg: fmt.Sprint(r)}
			}
		}
	}()
	return f()
}

// ---------------------------------------------------------------- result types

type tyEntry struct {
	id    int
	name  string // fmt.Sprintf("%T", zero)
	iface bool
	dflt  outcome
	get   func(cfg *gconfig.Config, key string) outcome
	must  func(cfg *gconfig.Config, key string) outcome
	ordef func(cfg *gconfig.Config, key string) outcome
}

var types []tyEntry

func reg[T any](dflt T) {
	var zero T
	e := tyEntry{id: len(types), name: fmt.Sprintf("%T", zero), iface: any(zero) == nil && fmt.Sprintf("%T", zero) == "<nil>"}
	e.dflt = render(any(dflt))
	e.get = func(cfg *gconfig.Config, key string) outcome {
		return guarded(func() outcome {
			v, err := gconfig.Get[T](cfg, key)
			if err != nil {
				return outcome{Kind: "err"}
			}
			return render(any(v))
		})
	}
	e.must = func(cfg *gconfig.Config, key string) outcome {
		return guarded(func() outcome { return render(any(gconfig.MustGet[T](cfg, key))) })
	}
	e.ordef = func(cfg *gconfig.Config, key string) outcome {
		return guarded(func() outcome { return render(any(gconfig.GetOrDefault[T](cfg, key, dflt))) })
	}
	types = append(types, e)
}

type myInt int

// S is a struct result type.
type S struct {
	A int           `yaml:"a" json:"a"`
	B string        `yaml:"b" json:"b"`
	D time.Duration `yaml:"d" json:"d"`
}

func ptr[T any](v T) *T { return &v }

// two distinct types that print as the same %T ("main.T")
func regLocal1() {
	type T struct {
		A int `yaml:"a" json:"a"`
	}
	reg(T{A: 41})
}

func regLocal2() {
	type T struct {
		A string `yaml:"a" json:"a"`
		B string `yaml:"b" json:"b"`
	}
	reg(T{A: "dflt"})
}

func registerTypes() {
	reg(int(71))
	reg(int8(72))
	reg(int16(73))
	reg(int32(74))
	reg(int64(75))
	reg(uint(76))
	reg(uint8(77))
	reg(uint16(78))
	reg(uint32(79))
	reg(uint64(80))
	reg(float32(1.5))
	reg(float64(2.25))
	reg("dflt")
	reg(true)
	reg(ptr(81))
	reg(ptr(int8(82)))
	reg(ptr(uint8(83)))
	reg(ptr("pd"))
	reg(ptr(true))
	reg([]int{84})
	reg([]int8{85})
	reg([]uint8{86})
	reg([]uint{87})
	reg([]string{"sd"})
	reg([]*int{ptr(88)})
	reg([]any{"ad", 1})
	reg([][]int{{89}})
	reg(map[string]int{"d": 90})
	reg(map[string]int8{"d": 91})
	reg(map[string]uint8{"d": 92})
	reg(map[string]any{"d": "x"})
	reg(map[string]string{"d": "y"})
	reg(map[string]*int{"d": ptr(93)})
	reg(S{A: 94, B: "sd"})
	reg(&S{A: 95})
	reg(time.Duration(96))
	reg([]time.Duration{97})
	reg[any]("anyd")
	reg(myInt(98))
	reg([]myInt{99})
	regLocal1()
	regLocal2()
}

// ---------------------------------------------------------------- document and keys

type suffixPair struct {
	t1, t2 int // name(t1) = prefix + name(t2)
	prefix string
	k      string // key k, the other is k+prefix
}

func buildDoc(r *rand.Rand) (text []byte, keys []string, pairs []suffixPair) {
	doc := map[string]any{
		"a": 1, "au": 2, "aui": 3, "n": nil, "s": "text", "si": "12", "f": 2.5, "b": true, "neg": -3, "big": 300,
		"l": []any{1, 2, 3}, "ls": []any{"x", "y"}, "ln": []any{1, nil}, "le": []any{},
		"m": map[string]any{"x": 1, "y": 2}, "ms": map[string]any{"p": "q"}, "me": map[string]any{},
		"st": map[string]any{"a": 1, "b": "two", "d": "3s"}, "d": "1m30s", "di": 5,
		"deep":   map[string]any{"a": map[string]any{"b": map[string]any{"c": 7, "cu": 8}}},
		"k<nil>": 4, "k": 5, "x[]": 6, "x": 7, "p*": 8, "p": 9,
	}
	j := 0
	for _, t1 := range types {
		for _, t2 := range types {
			if t1.name != t2.name && strings.HasSuffix(t1.name, t2.name) {
				p := t1.name[:len(t1.name)-len(t2.name)]
				if strings.Contains(p, ".") {
					continue // a dot would make the key a path
				}
				k := fmt.Sprintf("c%d", j)
				j++
				var v any = 1 + r.IntN(100)
				switch {
				case strings.HasPrefix(t2.name, "[]"):
					v = []any{1 + r.IntN(100), 2}
				case strings.HasPrefix(t2.name, "map["):
					v = map[string]any{"q": 1 + r.IntN(100)}
				}
				doc[k], doc[k+p] = v, v
				pairs = append(pairs, suffixPair{t1.id, t2.id, p, k})
			}
		}
	}
	// a few random scalars under keys that extend each other
	base := []string{"r", "ru", "rui", "ruin", "r*", "r[]", "rm"}
	for _, k := range base {
		switch r.IntN(4) {
		case 0:
			doc[k] = r.IntN(200)
		case 1:
			doc[k] = fmt.Sprintf("s%d", r.IntN(50))
		case 2:
			doc[k] = nil
		default:
			doc[k] = []any{r.IntN(9), r.IntN(9)}
		}
	}
	text, err := yaml.Marshal(doc)
	if err != nil {
		panic(err)
	}
	for k := range doc {
		keys = append(keys, k)
	}
	keys = append(keys, "m.x", "m.y", "ms.p", "st.a", "st.b", "deep.a.b.c", "deep.a.b.cu", "deep.a", "nope", "m.nope", "a.b", "")
	sort.Strings(keys)
	return text, keys, pairs
}

func load(text []byte) *gconfig.Config {
	cfg, err := gconfig.NewBuilder().FromBytes(text)
	if err != nil {
		panic(fmt.Sprintf("c10: cannot load the document: %v", err))
	}
	return cfg
}

// ---------------------------------------------------------------- histories

type request struct {
	Op  string `json:"op"` // Get | MustGet | GetOrDefault
	Key string `json:"key"`
	Ty  int    `json:"ty"`
}

// replayRequest: replay files may name the type instead of giving its index (first match).
type replayRequest struct {
	request
	TyName string `json:"tyname"`
}

func (q request) run(cfg *gconfig.Config) outcome {
	t := types[q.Ty]
	switch q.Op {
	case "MustGet":
		return t.must(cfg, q.Key)
	case "GetOrDefault":
		return t.ordef(cfg, q.Key)
	}
	return t.get(cfg, q.Key)
}

type convRow struct {
	Key string  `json:"key"`
	Ty  int     `json:"ty"`
	Res outcome `json:"res"`
}

type jcase struct {
	Kind  string    `json:"kind"`
	Yaml  string    `json:"yaml"`
	Types []string  `json:"types"`
	Ops   []request `json:"ops"`
	Obs   []outcome `json:"obs"`
	Fresh []outcome `json:"fresh"`
	Conv  []convRow `json:"conv"`
	G     int       `json:"goroutines,omitempty"`
	// stress mode: rounds run / rounds in which some outcome differed from the fresh one
	StressRounds   int `json:"stress_rounds,omitempty"`
	StressMismatch int `json:"stress_mismatch_rounds,omitempty"`
}

func gOutcome(o outcome) string {
	switch o.Kind {
	case "val":
		return "OVal (V " + gcx.GStr(o.Val) + ")"
	case "nil":
		return "OVal VNil"
	case "err":
		return "OErr"
	case "mustpanic":
		return "OMustPanic"
	}
	return "OPanic"
}

func gVal(o outcome) string {
	if o.Kind == "nil" {
		return "VNil"
	}
	return "(V " + gcx.GStr(o.Val) + ")"
}

var stressRounds, stressMismatch int

func emit(out *gal.Out, kind string, text []byte, ops []request, obs []outcome, g int) {
	c := jcase{Kind: kind, Yaml: string(text), Ops: ops, Obs: obs, G: g,
		StressRounds: stressRounds, StressMismatch: stressMismatch}
	for _, t := range types {
		c.Types = append(c.Types, t.name)
	}
	// the same requests on fresh Configs, and the conversion oracle: a fresh Get per (key, type)
	seen := map[[2]any]bool{}
	for _, q := range ops {
		c.Fresh = append(c.Fresh, q.run(load(text)))
		id := [2]any{q.Key, q.Ty}
		if !seen[id] {
			seen[id] = true
			c.Conv = append(c.Conv, convRow{q.Key, q.Ty, types[q.Ty].get(load(text), q.Key)})
		}
	}
	var sb strings.Builder
	used := map[int]bool{}
	for _, q := range ops {
		used[q.Ty] = true
	}
	var tys []string
	for _, t := range types {
		if used[t.id] {
			tys = append(tys, gal.Pair(gal.Nat(t.id), gal.Pair(gcx.GStr(t.name), gal.Bool(t.iface))))
		}
	}
	sb.WriteString("{| k_types := " + gal.List(tys))
	sb.WriteString("; k_conv := " + gal.ListOf(c.Conv, func(r convRow) string {
		res := "None"
		switch r.Res.Kind {
		case "val", "nil":
			res = "Some (Ok " + gVal(r.Res) + ")"
		case "err":
			res = "Some Err"
		}
		return gal.Pair(gal.Pair(gcx.GStr(r.Key), gal.Nat(r.Ty)), res)
	}))
	sb.WriteString("; k_ops := " + gal.ListOf(ops, func(q request) string {
		switch q.Op {
		case "MustGet":
			return "MustGet " + gcx.GStr(q.Key) + " " + gal.Nat(q.Ty)
		case "GetOrDefault":
			return "GetOrDefault " + gcx.GStr(q.Key) + " " + gal.Nat(q.Ty) + " " + gVal(types[q.Ty].dflt)
		}
		return "Get " + gcx.GStr(q.Key) + " " + gal.Nat(q.Ty)
	}))
	sb.WriteString("; k_obs := " + gal.ListOf(obs, gOutcome))
	sb.WriteString("; k_fresh := " + gal.ListOf(c.Fresh, gOutcome) + " |}")
	out.Case(sb.String(), c)
}

var opNames = []string{"Get", "Get", "Get", "MustGet", "GetOrDefault"}

func randomRequest(r *rand.Rand, keys []string, pairs []suffixPair, recent []request) []request {
	op := opNames[r.IntN(len(opNames))]
	switch x := r.IntN(100); {
	case x < 35 && len(pairs) > 0:
		// the two requests of a suffix pair, in either order
		p := pairs[r.IntN(len(pairs))]
		a := request{op, p.k, p.t1}
		b := request{opNames[r.IntN(len(opNames))], p.k + p.prefix, p.t2}
		if r.IntN(2) == 0 {
			return []request{a, b}
		}
		return []request{b, a}
	case x < 50 && len(recent) > 0:
		// an earlier (key, type) again, possibly through another entry point
		q := recent[r.IntN(len(recent))]
		return []request{{op, q.Key, q.Ty}}
	case x < 60 && len(recent) > 0:
		// an earlier key with another type
		q := recent[r.IntN(len(recent))]
		return []request{{op, q.Key, r.IntN(len(types))}}
	}
	return []request{{op, keys[r.IntN(len(keys))], r.IntN(len(types))}}
}

func randomHistory(r *rand.Rand, keys []string, pairs []suffixPair, n int) []request {
	var h []request
	for len(h) < n {
		h = append(h, randomRequest(r, keys, pairs, h)...)
	}
	return h[:n]
}

func tyByName(name string) int {
	for _, t := range types {
		if t.name == name {
			return t.id
		}
	}
	panic("c10: no type " + name)
}

func main() {
	seed := flag.Uint64("seed", 1, "PRNG seed")
	prefix := flag.String("out", "c10", "output prefix")
	mode := flag.String("mode", "random", "corpus|random|concurrent|stress|replay")
	in := flag.String("in", "", "replay: JSON-lines file, one {\"ops\": [...]} per line")
	n := flag.Int("n", 50, "number of histories")
	hlen := flag.Int("len", 200, "maximal number of requests per history (per goroutine in concurrent mode)")
	g := flag.Int("g", 16, "goroutines (concurrent mode)")
	flag.Parse()
	if os.Getenv("GOMAXPROCS") == "" {
		runtime.GOMAXPROCS(8)
	}
	registerTypes()
	r := gal.NewRand(*seed)
	out := gal.NewOut(*prefix)
	defer out.Close()
	text, keys, pairs := buildDoc(r)
	seq := func(kind string, ops []request) {
		cfg := load(text)
		obs := make([]outcome, len(ops))
		for i, q := range ops {
			obs[i] = q.run(cfg)
		}
		emit(out, kind, text, ops, obs, 0)
	}
	switch *mode {
	case "corpus":
		u8, i8, anyT := tyByName("uint8"), tyByName("int8"), tyByName("<nil>")
		// the DESIGN §5 witness, both orders, through every entry point
		seq("corpus", []request{{"Get", "a", u8}, {"Get", "au", i8}})
		seq("corpus", []request{{"Get", "au", i8}, {"Get", "a", u8}})
		seq("corpus", []request{{"MustGet", "a", u8}, {"GetOrDefault", "au", i8}, {"MustGet", "au", i8}})
		// a null value read as `any`
		seq("corpus", []request{{"Get", "n", anyT}})
		seq("corpus", []request{{"Get", "ln", anyT}, {"Get", "n", tyByName("*int")}, {"GetOrDefault", "n", anyT}})
		// two distinct local types that print the same %T
		var locals []int
		for _, t := range types {
			if t.name == "main.T" {
				locals = append(locals, t.id)
			}
		}
		seq("corpus", []request{{"Get", "st", locals[0]}, {"Get", "st", locals[1]}})
		// errors are not memoised; defaults are not memoised
		seq("corpus", []request{{"GetOrDefault", "nope", u8}, {"Get", "nope", u8}, {"MustGet", "nope", u8},
			{"Get", "big", u8}, {"GetOrDefault", "big", u8}, {"Get", "big", tyByName("int")}})
	case "replay":
		data, err := os.ReadFile(*in)
		if err != nil {
			panic(err)
		}
		for _, line := range strings.Split(string(data), "\n") {
			if strings.TrimSpace(line) == "" {
				continue
			}
			var inp struct {
				Ops  []replayRequest `json:"ops"`
				Yaml string          `json:"yaml"`
			}
			if err := json.Unmarshal([]byte(line), &inp); err != nil {
				panic(err)
			}
			if inp.Yaml != "" {
				text = []byte(inp.Yaml) // the document the history was recorded on
			}
			ops := make([]request, len(inp.Ops))
			for i, q := range inp.Ops {
				ops[i] = q.request
				if q.TyName != "" {
					ops[i].Ty = tyByName(q.TyName)
				}
			}
			seq("replay", ops)
		}
	case "stress":
		// schedule-free stress: every round loads a fresh Config and releases G goroutines at once,
		// all issuing the same short, collision-prone request list (rotated per goroutine), so the
		// first fill of every memo entry is contended.  Outcomes are compared here with the fresh
		// ones; the first two rounds and every deviating round (at most five) are written as cases.
		freshOf := map[request]outcome{}
		type round struct {
			ops []request
			obs []outcome
		}
		var keep []round
		for c := 0; c < *n; c++ {
			base := randomHistory(r, keys, pairs, 12)
			for _, q := range base {
				if _, ok := freshOf[q]; !ok {
					freshOf[q] = q.run(load(text))
				}
			}
			cfg := load(text)
			res := make([][]outcome, *g)
			var wg sync.WaitGroup
			start := make(chan struct{})
			for i := 0; i < *g; i++ {
				res[i] = make([]outcome, len(base))
				wg.Add(1)
				go func(i int) {
					defer wg.Done()
					<-start
					for j := range base {
						res[i][j] = base[(j+i)%len(base)].run(cfg)
					}
				}(i)
			}
			close(start)
			wg.Wait()
			var ops []request
			var obs []outcome
			bad := false
			for i := 0; i < *g; i++ {
				for j := range base {
					q := base[(j+i)%len(base)]
					ops, obs = append(ops, q), append(obs, res[i][j])
					if res[i][j].Kind != freshOf[q].Kind || res[i][j].Val != freshOf[q].Val {
						bad = true
					}
				}
			}
			stressRounds++
			if bad {
				stressMismatch++
			}
			if (c < 2 || bad) && len(keep) < 7 {
				keep = append(keep, round{ops, obs})
			}
		}
		for _, k := range keep {
			emit(out, "stress", text, k.ops, k.obs, *g)
		}
	case "concurrent":
		for c := 0; c < *n; c++ {
			cfg := load(text)
			per := make([][]request, *g)
			res := make([][]outcome, *g)
			for i := range per {
				per[i] = randomHistory(r, keys, pairs, 1+r.IntN(*hlen))
				res[i] = make([]outcome, len(per[i]))
			}
			var wg sync.WaitGroup
			start := make(chan struct{})
			for i := range per {
				wg.Add(1)
				go func(i int) {
					defer wg.Done()
					<-start
					for j, q := range per[i] {
						res[i][j] = q.run(cfg)
					}
				}(i)
			}
			close(start)
			wg.Wait()
			var ops []request
			var obs []outcome
			for i := range per {
				ops = append(ops, per[i]...)
				obs = append(obs, res[i]...)
			}
			emit(out, "concurrent", text, ops, obs, *g)
		}
	default:
		for c := 0; c < *n; c++ {
			seq("random", randomHistory(r, keys, pairs, 1+r.IntN(*hlen)))
		}
	}
}
