// c10 — runs histories of Get/MustGet/GetOrDefault against one shared gconfig.Config of the
// current tree and records, per request, the outcome on the shared Config and the outcome of
// the same request on a Config freshly loaded from the same bytes.
//
//	c10 -seed N -out PREFIX -mode corpus|random|concurrent|stress|replay -n COUNT [-len L] [-g G] [-in FILE] [-timeout 2s]
//
// Watchdog: no request is waited for longer than -timeout.  A request that does not return is
// recorded as outcome kind "panic" with message "hang: ..." (OPanic in the Gallina case: never
// allowed by the specification), nothing more is issued on that Config by the goroutine that is
// stuck, and the harness goes on (the stuck goroutines are leaked), writes every case and exits 0.
//
// Keys include prefixes/extensions of each other and keys ending in fragments of Go type
// names (for every pair of result types whose %T names are in suffix relation, name(T1) =
// P + name(T2), the document holds keys k and k+P); result types: sized integers, floats,
// string, bool, pointers, slices, maps, structs, time.Duration, `any`, named types and two
// distinct local types with the same name, and result types yaml.v3 cannot decode into without
// panicking through reflect (a struct with an interface-typed field, fmt.Stringer itself, a
// struct repeating a yaml tag, a struct with an `error` field).  concurrent: G goroutines issue their requests
// against one Config (run the binary built with -race for the race detector).
package main

import (
	"encoding/json"
	"flag"
	"fmt"
	"hash/adler32"
	"hash/crc32"
	"hash/fnv"
	"math/rand/v2"
	"os"
	"reflect"
	"runtime"
	"sort"
	"strings"
	"sync"
	"sync/atomic"
	"time"

	"github.com/drshriveer/gtools/gconfig"
	"gopkg.in/yaml.v3"

	"gtverif/cmd/c03/gcx"
	"gtverif/internal/gal"
)

// ---------------------------------------------------------------- outcomes

type outcome struct {
	Kind string `json:"kind"` // val | nil | err | mustpanic | panic
	Val  string `json:"val,omitempty"`
	Msg  string `json:"msg,omitempty"`
}

func render(v any) outcome {
	if v == nil {
		return outcome{Kind: "nil"}
	}
	b, err := json.Marshal(v)
	if err != nil {
		// e.g. a map with non-string keys: Go syntax (keys sorted by fmt), which tells an int key from
		// a string key spelled the same
		return outcome{Kind: "val", Val: fmt.Sprintf("%#v", v)}
	}
	return outcome{Kind: "val", Val: string(b)}
}

// guarded runs one request and classifies a panic.  Only MustGet (must = true) may report an
// error by panicking with it ("mustpanic"); a panic of Get or GetOrDefault, a runtime error and a
// panic whose value is not an error are kind "panic".
func guarded(must bool, f func() outcome) (o outcome) {
	defer func() {
		if r := recover(); r != nil {
			_, isRuntime := r.(runtime.Error)
			_, isErr := r.(error)
			if must && isErr && !isRuntime {
				o = outcome{Kind: "mustpanic"}
			} else {
				o = outcome{Kind: "panic", Msg: fmt.Sprint(r)}
			}
		}
	}()
	return f()
}

// ---------------------------------------------------------------- watchdog

var (
	reqTimeout = 2 * time.Second // -timeout
	hangEvents atomic.Int64      // requests / goroutine groups that did not return in time
)

const (
	fullTimeoutHangs = 2                      // the first hangs of a run are waited for with the full timeout,
	shortTimeout     = 250 * time.Millisecond // later ones (the tree is known to hang by then) with this one
	maxHangEvents    = 20                     // the generating modes stop producing histories after that many
	// the timeout is counted in ticks of a ticker, not in wall-clock time: when the machine is so
	// loaded that this process is not scheduled, ticks are dropped as well and the wait gets longer
	watchTicks = 20
)

func curTimeout() time.Duration {
	if hangEvents.Load() >= fullTimeoutHangs && reqTimeout > shortTimeout {
		return shortTimeout
	}
	return reqTimeout
}

func tooManyHangs() bool { return hangEvents.Load() >= maxHangEvents }

func hangOutcome(d time.Duration) outcome {
	return outcome{Kind: "panic", Msg: fmt.Sprintf("hang: the request did not return within %v", d)}
}

func isHang(o outcome) bool { return o.Kind == "panic" && strings.HasPrefix(o.Msg, "hang:") }

// goid is the id of the calling goroutine, as the runtime prints it ("goroutine 123 [running]:").
func goid() uint64 {
	var buf [64]byte
	b := buf[:runtime.Stack(buf[:], false)]
	b = b[len("goroutine "):]
	var id uint64
	for _, c := range b {
		if c < '0' || c > '9' {
			break
		}
		id = id*10 + uint64(c-'0')
	}
	return id
}

// blocked tells whether each of the goroutines is parked on a lock, channel, condition, ... (so
// it cannot return by itself) rather than running or waiting for a processor.  A machine so
// loaded that a request merely has not been scheduled must not be taken for a hang: after the
// timeout the harness looks at the runtime's own view of the goroutines.
func blocked(ids []uint64) bool {
	buf := make([]byte, 1<<20)
	for {
		n := runtime.Stack(buf, true)
		if n < len(buf) {
			buf = buf[:n]
			break
		}
		buf = make([]byte, 2*len(buf))
	}
	dump := "\n" + string(buf)
	for _, id := range ids {
		i := strings.Index(dump, fmt.Sprintf("\ngoroutine %d [", id))
		if i < 0 {
			return false // gone: it has returned in the meantime
		}
		st := dump[i+1:]
		st = st[strings.IndexByte(st, '[')+1:]
		for _, live := range []string{"running", "runnable", "syscall", "preempted", "copystack", "GC "} {
			if strings.HasPrefix(st, live) {
				return false
			}
		}
	}
	return true
}

// a goroutine that is not blocked (slow, or spinning) is waited for this many timeouts at most
const patience = 10

// watch runs one request in a goroutine of its own and gives up waiting when, after the timeout,
// that goroutine is blocked (or is still running after `patience` timeouts).
func watch(f func() outcome) outcome {
	done := make(chan outcome, 1)
	var id atomic.Uint64
	go func() {
		id.Store(goid())
		done <- f()
	}()
	d := curTimeout()
	tick := time.NewTicker(d / watchTicks)
	defer tick.Stop()
	for round := 0; round < patience; round++ {
		for n := 0; n < watchTicks; {
			select {
			case o := <-done:
				return o
			case <-tick.C:
				n++
			}
		}
		if g := id.Load(); g != 0 && blocked([]uint64{g}) {
			break
		}
	}
	select {
	case o := <-done: // returned while the goroutines were being looked at
		return o
	default:
	}
	hangEvents.Add(1)
	return hangOutcome(d)
}

// runWorkers releases one goroutine per request list at once on cfg; every goroutine issues its
// requests directly (no per-request goroutine, so the contention is what it would be in a
// program).  If no goroutine makes progress for the timeout and all that have not finished are
// blocked (see `blocked`), they are stuck: the request each of them is in is recorded as a hang
// and its remaining requests are dropped.  Returns, per goroutine, the requests issued and
// their outcomes.
func runWorkers(cfg *gconfig.Config, per [][]request) ([][]request, [][]outcome) {
	n := len(per)
	res := make([][]outcome, n)
	prog := make([]atomic.Int64, n)
	ids := make([]atomic.Uint64, n)
	var wg sync.WaitGroup
	start := make(chan struct{})
	for i := range per {
		res[i] = make([]outcome, len(per[i]))
		wg.Add(1)
		go func(i int) {
			defer wg.Done()
			ids[i].Store(goid())
			<-start
			for j, q := range per[i] {
				res[i][j] = q.run(cfg)
				prog[i].Store(int64(j + 1))
			}
		}(i)
	}
	done := make(chan struct{})
	go func() { wg.Wait(); close(done) }()
	limit := curTimeout()
	close(start)
	tick := time.NewTicker(limit / watchTicks)
	defer tick.Stop()
	last, idle, rounds := int64(-1), 0, 0
	for {
		select {
		case <-done:
			return per, res
		case <-tick.C:
			var sum int64
			for i := range prog {
				sum += prog[i].Load()
			}
			if sum != last {
				last, idle, rounds = sum, 0, 0
				continue
			}
			if idle++; idle < watchTicks {
				continue
			}
			var unfinished []uint64
			for i := range per {
				if int(prog[i].Load()) < len(per[i]) {
					unfinished = append(unfinished, ids[i].Load())
				}
			}
			if rounds++; rounds < patience && !blocked(unfinished) {
				idle = 0 // some goroutine is running or waiting for a processor: not a hang yet
				continue
			}
			hangEvents.Add(1)
			ops, obs := make([][]request, n), make([][]outcome, n)
			for i := range per {
				p := int(prog[i].Load()) // res[i][:p] was written before prog[i] was stored
				ops[i] = append([]request(nil), per[i][:p]...)
				obs[i] = append([]outcome(nil), res[i][:p]...)
				if p < len(per[i]) {
					ops[i], obs[i] = append(ops[i], per[i][p]), append(obs[i], hangOutcome(limit))
				}
			}
			return ops, obs
		}
	}
}

// ---------------------------------------------------------------- result types

type tyEntry struct {
	id    int
	name  string // fmt.Sprintf("%T", zero)
	label string // reflect.TypeFor[T]().String(): tells interface types apart (their %T is "<nil>")
	iface bool
	dflt  outcome
	zero  outcome // the second default GetOrDefault is called with (op GetOrDefault2): T's zero value
	get   func(cfg *gconfig.Config, key string) outcome
	must  func(cfg *gconfig.Config, key string) outcome
	ordef func(cfg *gconfig.Config, key string) outcome
	ordz  func(cfg *gconfig.Config, key string) outcome
}

var types []tyEntry

func reg[T any](dflt T) {
	var zero T
	e := tyEntry{id: len(types), name: fmt.Sprintf("%T", zero), label: reflect.TypeFor[T]().String(),
		iface: any(zero) == nil && fmt.Sprintf("%T", zero) == "<nil>"}
	e.dflt = render(any(dflt))
	e.get = func(cfg *gconfig.Config, key string) outcome {
		return guarded(false, func() outcome {
			v, err := gconfig.Get[T](cfg, key)
			if err != nil {
				return outcome{Kind: "err"}
			}
			return render(any(v))
		})
	}
	e.must = func(cfg *gconfig.Config, key string) outcome {
		return guarded(true, func() outcome { return render(any(gconfig.MustGet[T](cfg, key))) })
	}
	e.ordef = func(cfg *gconfig.Config, key string) outcome {
		return guarded(false, func() outcome { return render(any(gconfig.GetOrDefault[T](cfg, key, dflt))) })
	}
	e.zero = render(any(zero))
	e.ordz = func(cfg *gconfig.Config, key string) outcome {
		return guarded(false, func() outcome { return render(any(gconfig.GetOrDefault[T](cfg, key, zero))) })
	}
	types = append(types, e)
}

type myInt int

// S is a struct result type.
type S struct {
	A int           `yaml:"a" json:"a"`
	B string        `yaml:"b" json:"b"`
	D time.Duration `yaml:"d" json:"d"`
}

// Result types yaml.v3 cannot decode a present value into without panicking (reflect.Set of a
// string into an interface-typed field; getStructInfo's "duplicated key" error is a panic).
// Structs are inside C10's quantifier: the request must fail with an error, not panic.

// W is a struct with an interface-typed field.
type W struct {
	S fmt.Stringer `yaml:"s" json:"s"`
}

// Dup is a struct whose two fields carry the same yaml tag.
type Dup struct {
	A int `yaml:"x" json:"a"`
	B int `yaml:"x" json:"b"`
}

// E is a struct with an `error` field.
type E struct {
	E error `yaml:"s" json:"e"`
}

// hard lists the ids of these types (filled by registerTypes).
var hard []int

func ptr[T any](v T) *T { return &v }

// two distinct types that print as the same %T ("main.T")
func regLocal1() {
	type T struct {
		A int `yaml:"a" json:"a"`
	}
	reg(T{A: 41})
}

func regLocal2() {
	type T struct {
		A string `yaml:"a" json:"a"`
		B string `yaml:"b" json:"b"`
	}
	reg(T{A: "dflt"})
}

func registerTypes() {
	reg(int(71))
	reg(int8(72))
	reg(int16(73))
	reg(int32(74))
	reg(int64(75))
	reg(uint(76))
	reg(uint8(77))
	reg(uint16(78))
	reg(uint32(79))
	reg(uint64(80))
	reg(float32(1.5))
	reg(float64(2.25))
	reg("dflt")
	reg(true)
	reg(ptr(81))
	reg(ptr(int8(82)))
	reg(ptr(uint8(83)))
	reg(ptr("pd"))
	reg(ptr(true))
	reg([]int{84})
	reg([]int8{85})
	reg([]uint8{86})
	reg([]uint{87})
	reg([]string{"sd"})
	reg([]*int{ptr(88)})
	reg([]any{"ad", 1})
	reg([][]int{{89}})
	reg(map[string]int{"d": 90})
	reg(map[string]int8{"d": 91})
	reg(map[string]uint8{"d": 92})
	reg(map[string]any{"d": "x"})
	reg(map[string]string{"d": "y"})
	reg(map[string]*int{"d": ptr(93)})
	reg(S{A: 94, B: "sd"})
	reg(&S{A: 95})
	reg(time.Duration(96))
	reg([]time.Duration{97})
	reg[any]("anyd")
	reg(myInt(98))
	reg([]myInt{99})
	regLocal1()
	regLocal2()
	// appended last: the ids of the types above are used by stored corpus files
	first := len(types)
	reg(W{S: time.Duration(101)})
	reg[fmt.Stringer](time.Duration(102))
	reg(Dup{A: 103})
	reg(E{})
	reg(&W{S: time.Duration(104)})
	reg([]fmt.Stringer{time.Duration(105)})
	reg(map[string]fmt.Stringer{"d": time.Duration(106)})
	for id := first; id < len(types); id++ {
		hard = append(hard, id)
	}
	// result types for maps with keys that are not strings (ordinary YAML: `ports: {80: http}`)
	firstNSK := len(types)
	reg(map[int]string{7: "d"})
	reg(map[bool]string{true: "d"})
	reg(map[float64]string{0.5: "d"})
	reg(map[int]any{7: "d"})
	reg(map[any]any{"d": 7})
	for id := firstNSK; id < len(types); id++ {
		nskTypes = append(nskTypes, id)
	}
}

// maps with non-string keys: yaml decodes them as map[any]any.  A dotted key cannot walk through
// such a map (ports.80 is "not found"), the map itself can be requested as map[int]T, map[bool]T,
// map[string]T or any — and a request below it must not change what a request for it returns.
var nskTypes []int
var nskParents = []string{"ports", "flags", "ratio", "mixed", "deepn.p", "deepn"}
var nskThrough = []string{"ports.80", "ports.443", "ports.invalid", "flags.true", "flags.false", "ratio.1.5", "mixed.a", "mixed.2",
	"deepn.p.1", "deepn.p.1.k"}

// ---------------------------------------------------------------- document and keys

type suffixPair struct {
	t1, t2 int // name(t1) = prefix + name(t2)
	prefix string
	k      string // key k, the other is k+prefix
}

func buildDoc(r *rand.Rand) (text []byte, keys []string, pairs []suffixPair) {
	doc := map[string]any{
		"a": 1, "au": 2, "aui": 3, "n": nil, "s": "text", "si": "12", "f": 2.5, "b": true, "neg": -3, "big": 300,
		"l": []any{1, 2, 3}, "ls": []any{"x", "y"}, "ln": []any{1, nil}, "le": []any{},
		"m": map[string]any{"x": 1, "y": 2}, "ms": map[string]any{"p": "q"}, "me": map[string]any{},
		"st": map[string]any{"a": 1, "b": "two", "d": "3s", "s": "hello", "x": 5}, "d": "1m30s", "di": 5,
		"w": map[string]any{"s": "hello"}, "wn": map[string]any{"s": nil}, "dup": map[string]any{"x": 5},
		"ports": map[any]any{80: "http", 443: "https"}, "flags": map[any]any{true: "on", false: "off"},
		"ratio": map[any]any{1.5: "x", 2.5: "y"}, "mixed": map[any]any{"a": "1", 2: "two"},
		"deepn":  map[string]any{"p": map[any]any{1: map[string]any{"k": "v"}, 2: "w"}},
		"deep":   map[string]any{"a": map[string]any{"b": map[string]any{"c": 7, "cu": 8}}},
		"k<nil>": 4, "k": 5, "x[]": 6, "x": 7, "p*": 8, "p": 9,
	}
	j := 0
	for _, t1 := range types {
		for _, t2 := range types {
			if t1.name != t2.name && strings.HasSuffix(t1.name, t2.name) {
				p := t1.name[:len(t1.name)-len(t2.name)]
				if strings.Contains(p, ".") {
					continue // a dot would make the key a path
				}
				k := fmt.Sprintf("c%d", j)
				j++
				var v any = 1 + r.IntN(100)
				switch {
				case strings.HasPrefix(t2.name, "[]"):
					v = []any{1 + r.IntN(100), 2}
				case strings.HasPrefix(t2.name, "map["):
					v = map[string]any{"q": 1 + r.IntN(100)}
				}
				doc[k], doc[k+p] = v, v
				pairs = append(pairs, suffixPair{t1.id, t2.id, p, k})
			}
		}
	}
	// a few random scalars under keys that extend each other
	base := []string{"r", "ru", "rui", "ruin", "r*", "r[]", "rm"}
	for _, k := range base {
		switch r.IntN(4) {
		case 0:
			doc[k] = r.IntN(200)
		case 1:
			doc[k] = fmt.Sprintf("s%d", r.IntN(50))
		case 2:
			doc[k] = nil
		default:
			doc[k] = []any{r.IntN(9), r.IntN(9)}
		}
	}
	for i, k := range collidingKeys {
		doc[k] = 7000 + i
	}
	text, err := yaml.Marshal(doc)
	if err != nil {
		panic(err)
	}
	for k := range doc {
		keys = append(keys, k)
	}
	keys = append(keys, nskThrough...)
	keys = append(keys, "deepn.p")
	keys = append(keys, "m.x", "m.y", "ms.p", "st.a", "st.b", "st.s", "w.s", "deep.a.b.c", "deep.a.b.cu", "deep.a", "nope", "m.nope", "a.b", "")
	sort.Strings(keys)
	return text, keys, pairs
}

// wideDoc: g keys, each holding a list of n small integers (distinct per key, so that a result
// that belongs to another key is recognised)
func wideDoc(g, n int) ([]byte, []string) {
	doc := map[string]any{}
	var keys []string
	for i := 0; i < g; i++ {
		l := make([]any, n)
		for j := range l {
			l[j] = (i*7 + j) % 100
		}
		k := fmt.Sprintf("wide%02d", i)
		doc[k] = l
		keys = append(keys, k)
	}
	text, err := yaml.Marshal(doc)
	if err != nil {
		panic(err)
	}
	return text, keys
}

// otherValues returns the document with every integer and string scalar changed (same keys).
func otherValues(text []byte) []byte {
	var doc any
	if err := yaml.Unmarshal(text, &doc); err != nil {
		panic(err)
	}
	var walk func(v any) any
	walk = func(v any) any {
		switch x := v.(type) {
		case int:
			return x + 1000
		case string:
			if _, err := time.ParseDuration(x); err == nil {
				return x
			}
			return x + "~b"
		case []any:
			for i := range x {
				x[i] = walk(x[i])
			}
		case map[string]any:
			for k := range x {
				x[k] = walk(x[k])
			}
		case map[any]any:
			for k := range x {
				x[k] = walk(x[k])
			}
		}
		return v
	}
	out, err := yaml.Marshal(walk(doc))
	if err != nil {
		panic(err)
	}
	return out
}

// collidingKeys: pairs of distinct keys with the same 32-bit hash under FNV-1a, FNV-1, CRC-32 (IEEE)
// and Adler-32, found by a birthday search over short random keys (a fixed PRNG: the same pairs in
// every run), followed by two very long keys.  A memo that identifies entries by such a hash of the
// key (seed C10-43) confuses the two keys of a pair.
var collidingKeys = findCollisions()

func findCollisions() []string {
	r := rand.New(rand.NewPCG(7, 11))
	hashes := []func(string) uint32{
		func(s string) uint32 { h := fnv.New32a(); h.Write([]byte(s)); return h.Sum32() },
		func(s string) uint32 { h := fnv.New32(); h.Write([]byte(s)); return h.Sum32() },
		func(s string) uint32 { return crc32.ChecksumIEEE([]byte(s)) },
		func(s string) uint32 { return adler32.Checksum([]byte(s)) },
	}
	const letters = "abcdefghijklmnopqrstuvwxyz0123456789"
	var out []string
	for _, h := range hashes {
		seen := map[uint32]string{}
		for {
			b := make([]byte, 7)
			for i := range b {
				b[i] = letters[r.IntN(len(letters))]
			}
			k := "h" + string(b)
			if o, ok := seen[h(k)]; ok && o != k {
				out = append(out, o, k)
				break
			}
			seen[h(k)] = k
		}
	}
	return append(out, "long"+strings.Repeat("k", 300), "long"+strings.Repeat("k", 299)+"j")
}

func load(text []byte) *gconfig.Config {
	cfg, err := gconfig.NewBuilder().FromBytes(text)
	if err != nil {
		panic(fmt.Sprintf("c10: cannot load the document: %v", err))
	}
	return cfg
}

// ---------------------------------------------------------------- histories

type request struct {
	Op  string `json:"op"` // Get | MustGet | GetOrDefault
	Key string `json:"key"`
	Ty  int    `json:"ty"`
}

// replayRequest: replay files may name the type instead of giving its index (first match).
type replayRequest struct {
	request
	TyName string `json:"tyname"`
}

func (q request) run(cfg *gconfig.Config) outcome {
	t := types[q.Ty]
	switch q.Op {
	case "MustGet":
		return t.must(cfg, q.Key)
	case "GetOrDefault":
		return t.ordef(cfg, q.Key)
	case "GetOrDefault2": // the same entry point with another default (T's zero value)
		return t.ordz(cfg, q.Key)
	}
	return t.get(cfg, q.Key)
}

type convRow struct {
	Key string  `json:"key"`
	Ty  int     `json:"ty"`
	Res outcome `json:"res"`
}

type jcase struct {
	Kind  string    `json:"kind"`
	Yaml  string    `json:"yaml"`
	Types []string  `json:"types"`
	Label []string  `json:"labels"`
	Ops   []request `json:"ops"`
	Obs   []outcome `json:"obs"`
	Fresh []outcome `json:"fresh"`
	Conv  []convRow `json:"conv"`
	G     int       `json:"goroutines,omitempty"`
	// stress mode: rounds run / rounds in which some outcome differed from the fresh one
	StressRounds   int `json:"stress_rounds,omitempty"`
	StressMismatch int `json:"stress_mismatch_rounds,omitempty"`
	// of these: wide-window rounds (first conversions of G keys overlap by construction)
	WideRounds   int `json:"wide_rounds,omitempty"`
	WideMismatch int `json:"wide_mismatch_rounds,omitempty"`
}

func gOutcome(o outcome) string {
	switch o.Kind {
	case "val":
		return "OVal (V " + gcx.GStr(o.Val) + ")"
	case "nil":
		return "OVal VNil"
	case "err":
		return "OErr"
	case "mustpanic":
		return "OMustPanic"
	}
	return "OPanic"
}

func gVal(o outcome) string {
	if o.Kind == "nil" {
		return "VNil"
	}
	return "(V " + gcx.GStr(o.Val) + ")"
}

var stressRounds, stressMismatch, wideRounds, wideMismatch int

func emit(out *gal.Out, kind string, text []byte, ops []request, obs []outcome, g int) {
	c := jcase{Kind: kind, Yaml: string(text), Ops: ops, Obs: obs, G: g,
		StressRounds: stressRounds, StressMismatch: stressMismatch, WideRounds: wideRounds, WideMismatch: wideMismatch}
	for _, t := range types {
		c.Types = append(c.Types, t.name)
		c.Label = append(c.Label, t.label)
	}
	// the same requests on fresh Configs, and the conversion oracle: a fresh Get per (key, type)
	seen := map[[2]any]bool{}
	for _, q := range ops {
		c.Fresh = append(c.Fresh, watch(func() outcome { return q.run(load(text)) }))
		id := [2]any{q.Key, q.Ty}
		if !seen[id] {
			seen[id] = true
			c.Conv = append(c.Conv, convRow{q.Key, q.Ty, watch(func() outcome { return types[q.Ty].get(load(text), q.Key) })})
		}
	}
	var sb strings.Builder
	used := map[int]bool{}
	for _, q := range ops {
		used[q.Ty] = true
	}
	var tys []string
	for _, t := range types {
		if used[t.id] {
			tys = append(tys, gal.Pair(gal.Nat(t.id), gal.Pair(gcx.GStr(t.name), gal.Bool(t.iface))))
		}
	}
	sb.WriteString("{| k_types := " + gal.List(tys))
	sb.WriteString("; k_conv := " + gal.ListOf(c.Conv, func(r convRow) string {
		res := "None"
		switch r.Res.Kind {
		case "val", "nil":
			res = "Some (Ok " + gVal(r.Res) + ")"
		case "err":
			res = "Some Err"
		}
		return gal.Pair(gal.Pair(gcx.GStr(r.Key), gal.Nat(r.Ty)), res)
	}))
	sb.WriteString("; k_ops := " + gal.ListOf(ops, func(q request) string {
		switch q.Op {
		case "MustGet":
			return "MustGet " + gcx.GStr(q.Key) + " " + gal.Nat(q.Ty)
		case "GetOrDefault":
			return "GetOrDefault " + gcx.GStr(q.Key) + " " + gal.Nat(q.Ty) + " " + gVal(types[q.Ty].dflt)
		case "GetOrDefault2":
			return "GetOrDefault " + gcx.GStr(q.Key) + " " + gal.Nat(q.Ty) + " " + gVal(types[q.Ty].zero)
		}
		return "Get " + gcx.GStr(q.Key) + " " + gal.Nat(q.Ty)
	}))
	sb.WriteString("; k_obs := " + gal.ListOf(obs, gOutcome))
	sb.WriteString("; k_fresh := " + gal.ListOf(c.Fresh, gOutcome) + " |}")
	out.Case(sb.String(), c)
}

var opNames = []string{"Get", "Get", "Get", "MustGet", "GetOrDefault", "GetOrDefault2"}

// hardKeys: keys whose values reach the decoding paths that panic for the `hard` types (maps with
// the fields s / x, scalars and lists for the interface types) and a few that do not (null, missing).
var hardKeys = []string{"st", "st", "w", "dup", "s", "a", "ls", "m", "wn", "n", "st.s", "nope"}

func randomRequest(r *rand.Rand, keys []string, pairs []suffixPair, recent []request) []request {
	op := opNames[r.IntN(len(opNames))]
	switch x := r.IntN(100); {
	case x >= 95:
		// a result type yaml cannot decode into, on a key that reaches the failing path; sometimes
		// at once again (the same memo entry) or followed by a request for another key.  (The
		// branches below draw from the other types only, with the frequencies they always had;
		// the `hard` types come back through the repeats of earlier requests.)
		q := request{op, hardKeys[r.IntN(len(hardKeys))], hard[r.IntN(len(hard))]}
		switch r.IntN(4) {
		case 0:
			return []request{q, {opNames[r.IntN(len(opNames))], q.Key, q.Ty}}
		case 1:
			return []request{q, {opNames[r.IntN(len(opNames))], keys[r.IntN(len(keys))], r.IntN(len(types))}}
		}
		return []request{q}
	case x >= 85 && x < 88:
		// the two keys of a pair that collides under a 32-bit hash, same type, one after the other
		i := 2 * r.IntN(len(collidingKeys)/2)
		t := []int{tyByName("int"), tyByName("string"), tyByName("<nil>"), tyByName("uint8")}[r.IntN(4)]
		return []request{{op, collidingKeys[i], t}, {opNames[r.IntN(len(opNames))], collidingKeys[i+1], t}}
	case x >= 88:
		// a request for a path THROUGH a map with non-string keys and requests for the map itself
		// (typed by its key type, as map[string]T, as any), in either order, sometimes repeated
		anyT := tyByName("<nil>")
		par := nskParents[r.IntN(len(nskParents))]
		thr := nskThrough[r.IntN(len(nskThrough))]
		if r.IntN(3) > 0 { // mostly a path below that very map
			for _, k := range nskThrough {
				if strings.HasPrefix(k, par+".") && r.IntN(2) == 0 {
					thr = k
				}
			}
		}
		pt := append(append([]int{}, nskTypes...), anyT, tyByName("map[string]string"), tyByName("map[string]interface {}"))
		a := request{op, thr, []int{tyByName("string"), anyT, tyByName("int")}[r.IntN(3)]}
		b := request{opNames[r.IntN(len(opNames))], par, pt[r.IntN(len(pt))]}
		c := request{opNames[r.IntN(len(opNames))], par, pt[r.IntN(len(pt))]}
		switch r.IntN(4) {
		case 0:
			return []request{b, a, c}
		case 1:
			return []request{a, b}
		case 2:
			return []request{a, b, c}
		}
		return []request{b, a, b}
	case x < 35 && len(pairs) > 0:
		// the two requests of a suffix pair, in either order
		p := pairs[r.IntN(len(pairs))]
		a := request{op, p.k, p.t1}
		b := request{opNames[r.IntN(len(opNames))], p.k + p.prefix, p.t2}
		if r.IntN(2) == 0 {
			return []request{a, b}
		}
		return []request{b, a}
	case x < 50 && len(recent) > 0:
		// an earlier (key, type) again, possibly through another entry point
		q := recent[r.IntN(len(recent))]
		return []request{{op, q.Key, q.Ty}}
	case x < 60 && len(recent) > 0:
		// an earlier key with another type
		q := recent[r.IntN(len(recent))]
		return []request{{op, q.Key, r.IntN(hard[0])}}
	}
	return []request{{op, keys[r.IntN(len(keys))], r.IntN(hard[0])}}
}

func randomHistory(r *rand.Rand, keys []string, pairs []suffixPair, n int) []request {
	var h []request
	for len(h) < n {
		h = append(h, randomRequest(r, keys, pairs, h)...)
	}
	return h[:n]
}

func tyByName(name string) int {
	for _, t := range types {
		if t.name == name {
			return t.id
		}
	}
	for _, t := range types {
		if t.label == name {
			return t.id
		}
	}
	panic("c10: no type " + name)
}

// flatten concatenates the goroutines' requests and outcomes into one history
func flatten(ops [][]request, obs [][]outcome) ([]request, []outcome) {
	var fo []request
	var fb []outcome
	for i := range ops {
		fo = append(fo, ops[i]...)
		fb = append(fb, obs[i]...)
	}
	return fo, fb
}

func main() {
	seed := flag.Uint64("seed", 1, "PRNG seed")
	prefix := flag.String("out", "c10", "output prefix")
	mode := flag.String("mode", "random", "corpus|random|concurrent|stress|replay")
	in := flag.String("in", "", "replay: JSON-lines file, one {\"ops\": [...]} per line")
	n := flag.Int("n", 50, "number of histories")
	hlen := flag.Int("len", 200, "maximal number of requests per history (per goroutine in concurrent mode)")
	g := flag.Int("g", 16, "goroutines (concurrent mode)")
	flag.DurationVar(&reqTimeout, "timeout", reqTimeout, "watchdog: a request that has not returned after this long is recorded as a hang")
	flag.Parse()
	if os.Getenv("GOMAXPROCS") == "" {
		runtime.GOMAXPROCS(8)
	}
	registerTypes()
	r := gal.NewRand(*seed)
	out := gal.NewOut(*prefix)
	defer out.Close()
	defer func() {
		if n := hangEvents.Load(); n > 0 {
			fmt.Fprintf(os.Stderr, "c10: %d request(s)/goroutine group(s) did not return within the timeout (recorded as hang outcomes)\n", n)
		}
	}()
	text, keys, pairs := buildDoc(r)
	seq := func(kind string, ops []request) {
		cfg := load(text)
		obs := make([]outcome, 0, len(ops))
		for _, q := range ops {
			o := watch(func() outcome { return q.run(cfg) })
			obs = append(obs, o)
			if isHang(o) {
				break // the history ends with the request that did not return
			}
		}
		emit(out, kind, text, ops[:len(obs)], obs, 0)
	}
	// two Configs loaded by ONE Builder from two documents with the same keys and other values; the
	// requests alternate between them.  Each Config must answer like a Config of its own document
	// loaded by a Builder of its own (what `emit` compares with): nothing — a memo, a parsed
	// document — may be shared between Configs through the Builder.
	textB := otherValues(text)
	two := func(kind string, ops []request) {
		b := gconfig.NewBuilder()
		cfgA, errA := b.FromBytes(text)
		cfgB, errB := b.FromBytes(textB)
		if errA != nil || errB != nil {
			panic(fmt.Sprintf("c10: cannot load the documents: %v %v", errA, errB))
		}
		var opsA, opsB []request
		var obsA, obsB []outcome
		for i, q := range ops {
			cfg := cfgA
			if i%2 == 1 {
				cfg = cfgB
			}
			o := watch(func() outcome { return q.run(cfg) })
			if i%2 == 1 {
				opsB, obsB = append(opsB, q), append(obsB, o)
			} else {
				opsA, obsA = append(opsA, q), append(obsA, o)
			}
			if isHang(o) {
				break
			}
		}
		emit(out, kind, text, opsA, obsA, 0)
		if len(opsB) > 0 {
			emit(out, kind, textB, opsB, obsB, 0)
		}
	}
	switch *mode {
	case "corpus":
		// one Builder, two Configs: the same requests on both, alternating
		two("corpus", []request{{"Get", "a", tyByName("int")}, {"Get", "a", tyByName("int")}, {"Get", "s", tyByName("string")}, {"Get", "s", tyByName("string")},
			{"MustGet", "m", tyByName("map[string]int")}, {"MustGet", "m", tyByName("map[string]int")}, {"Get", "l", tyByName("[]int")}, {"Get", "l", tyByName("[]int")}})
		// GetOrDefault with two different defaults for the same key and type, where the fallback is used
		seq("corpus", []request{{"GetOrDefault", "nope", tyByName("uint8")}, {"GetOrDefault2", "nope", tyByName("uint8")}, {"GetOrDefault", "nope", tyByName("uint8")},
			{"GetOrDefault2", "big", tyByName("uint8")}, {"GetOrDefault", "big", tyByName("uint8")}, {"Get", "big", tyByName("uint8")},
			{"GetOrDefault", "s", tyByName("int")}, {"GetOrDefault2", "s", tyByName("int")}, {"GetOrDefault2", "a", tyByName("int")}, {"GetOrDefault", "a", tyByName("int")}})
		// keys that collide under the usual 32-bit hashes, and very long keys
		for i := 0; i+1 < len(collidingKeys); i += 2 {
			seq("corpus", []request{{"Get", collidingKeys[i], tyByName("int")}, {"Get", collidingKeys[i+1], tyByName("int")},
				{"Get", collidingKeys[i+1], tyByName("string")}, {"Get", collidingKeys[i], tyByName("string")}})
		}
		u8, i8, anyT := tyByName("uint8"), tyByName("int8"), tyByName("<nil>")
		// the DESIGN §5 witness, both orders, through every entry point
		seq("corpus", []request{{"Get", "a", u8}, {"Get", "au", i8}})
		seq("corpus", []request{{"Get", "au", i8}, {"Get", "a", u8}})
		seq("corpus", []request{{"MustGet", "a", u8}, {"GetOrDefault", "au", i8}, {"MustGet", "au", i8}})
		// a null value read as `any`
		seq("corpus", []request{{"Get", "n", anyT}})
		seq("corpus", []request{{"Get", "ln", anyT}, {"Get", "n", tyByName("*int")}, {"GetOrDefault", "n", anyT}})
		// an element type and the pointer to it on the same key, in both orders: on a null value E decodes to
		// its zero value and *E to a nil pointer, on a value *E points to a copy - an entry memoised for one
		// of the two types must not be the source of the other's answer (round 8, C10-82)
		for _, e := range []string{"int", "string", "bool", "int8", "uint8"} {
			for _, k := range []string{"n", "a", "s", "b"} {
				seq("corpus", []request{{"Get", k, tyByName(e)}, {"Get", k, tyByName("*" + e)}, {"GetOrDefault", k, tyByName("*" + e)}})
				seq("corpus", []request{{"Get", k, tyByName("*" + e)}, {"Get", k, tyByName(e)}, {"MustGet", k, tyByName("*" + e)}})
			}
		}
		// two distinct local types that print the same %T
		var locals []int
		for _, t := range types {
			if t.name == "main.T" {
				locals = append(locals, t.id)
			}
		}
		seq("corpus", []request{{"Get", "st", locals[0]}, {"Get", "st", locals[1]}})
		// errors are not memoised; defaults are not memoised
		// maps with non-string keys: a request below the map, then the map itself under several types
		str, mis, mbs, mss := tyByName("string"), tyByName("map[int]string"), tyByName("map[bool]string"), tyByName("map[string]string")
		seq("corpus", []request{{"Get", "ports.80", str}, {"Get", "ports", mis}, {"Get", "ports", anyT}, {"Get", "ports", mss}})
		seq("corpus", []request{{"Get", "flags.true", str}, {"Get", "flags", mbs}, {"MustGet", "flags", anyT}})
		seq("corpus", []request{{"Get", "ports", mis}, {"Get", "ports.443", anyT}, {"Get", "ports", anyT}, {"GetOrDefault", "ports", mss}, {"Get", "ports", mis}})
		seq("corpus", []request{{"Get", "ratio.1.5", str}, {"Get", "ratio", tyByName("map[float64]string")}, {"Get", "mixed.a", str}, {"Get", "mixed.2", str},
			{"Get", "mixed", anyT}, {"Get", "deepn.p.1.k", str}, {"Get", "deepn.p", tyByName("map[int]interface {}")}, {"Get", "deepn", anyT}})
		seq("corpus", []request{{"GetOrDefault", "nope", u8}, {"Get", "nope", u8}, {"MustGet", "nope", u8},
			{"Get", "big", u8}, {"GetOrDefault", "big", u8}, {"Get", "big", tyByName("int")}})
		// result types yaml cannot decode into without panicking: the request must fail with an
		// error.  On a tree where the panic escapes the memo's compute function, the same key
		// again deadlocks and requests for unrelated keys hang (the bucket stays locked).
		wT, intT := tyByName("main.W"), tyByName("int")
		seq("corpus", []request{{"Get", "st", wT}})
		seq("corpus", []request{{"Get", "st", wT}, {"Get", "st", wT}})
		unrelated := func(first ...request) []request {
			h := first
			for i := 0; len(h) < len(first)+200; i++ {
				if i < len(keys) {
					h = append(h, request{"Get", keys[i], intT})
				} else {
					h = append(h, request{"Get", fmt.Sprintf("u%d", i), intT})
				}
			}
			return h
		}
		seq("corpus", unrelated(request{"Get", "st", wT}))
		seq("corpus", []request{{"MustGet", "st", wT}})
		seq("corpus", []request{{"MustGet", "st", wT}, {"MustGet", "st", wT}})
		seq("corpus", []request{{"GetOrDefault", "st", wT}})
		seq("corpus", []request{{"GetOrDefault", "st", wT}, {"Get", "st", wT}, {"MustGet", "st", wT}})
		seq("corpus", unrelated(request{"GetOrDefault", "w", wT}))
		sT, dT, eT := tyByName("fmt.Stringer"), tyByName("main.Dup"), tyByName("main.E")
		seq("corpus", []request{{"Get", "s", sT}, {"Get", "n", sT}, {"Get", "a", sT}})
		seq("corpus", []request{{"Get", "dup", dT}, {"Get", "a", dT}, {"MustGet", "dup", dT}})
		seq("corpus", []request{{"Get", "st", eT}, {"GetOrDefault", "st", eT}})
		seq("corpus", []request{{"Get", "w", tyByName("*main.W")}, {"Get", "ls", tyByName("[]fmt.Stringer")},
			{"Get", "ms", tyByName("map[string]fmt.Stringer")}, {"Get", "wn", wT}, {"Get", "a", intT}})
	case "replay":
		data, err := os.ReadFile(*in)
		if err != nil {
			panic(err)
		}
		for _, line := range strings.Split(string(data), "\n") {
			if strings.TrimSpace(line) == "" {
				continue
			}
			var inp struct {
				Ops  []replayRequest `json:"ops"`
				Yaml string          `json:"yaml"`
			}
			if err := json.Unmarshal([]byte(line), &inp); err != nil {
				panic(err)
			}
			if inp.Yaml != "" {
				text = []byte(inp.Yaml) // the document the history was recorded on
			}
			ops := make([]request, len(inp.Ops))
			for i, q := range inp.Ops {
				ops[i] = q.request
				if q.TyName != "" {
					ops[i].Ty = tyByName(q.TyName)
				}
			}
			seq("replay", ops)
		}
	case "stress":
		// schedule-free stress: every round loads a fresh Config and releases G goroutines at once,
		// all issuing the same short, collision-prone request list (rotated per goroutine), so the
		// first fill of every memo entry is contended.  Outcomes are compared here with the fresh
		// ones; the first two rounds and every deviating round (at most five) are written as cases.
		freshOf := map[request]outcome{}
		type round struct {
			ops []request
			obs []outcome
		}
		var keep []round
		for c := 0; c < *n && !tooManyHangs(); c++ {
			base := randomHistory(r, keys, pairs, 12)
			for _, q := range base {
				if _, ok := freshOf[q]; !ok {
					freshOf[q] = watch(func() outcome { return q.run(load(text)) })
				}
			}
			per := make([][]request, *g)
			for i := range per {
				for j := range base {
					per[i] = append(per[i], base[(j+i)%len(base)])
				}
			}
			ops, obs := flatten(runWorkers(load(text), per))
			bad := false
			for i, q := range ops {
				if obs[i].Kind != freshOf[q].Kind || obs[i].Val != freshOf[q].Val || obs[i].Kind == "panic" {
					bad = true
				}
			}
			stressRounds++
			if bad {
				stressMismatch++
			}
			if (c < 2 || bad) && len(keep) < 7 {
				keep = append(keep, round{ops, obs})
			}
		}
		for _, k := range keep {
			emit(out, "stress", text, k.ops, k.obs, *g)
		}
		// wide-window rounds (systematic part): every goroutine's FIRST request converts a value of
		// its own key that takes long to convert (a list of several hundred items: the yaml round
		// trip lasts far longer than the skew with which goroutines leave the barrier), so the first
		// conversions of G different keys overlap by construction in every round.  Whatever a
		// conversion shares with another one in flight — a buffer, an in-flight table keyed too
		// coarsely, a package-level scratch variable — is hit in (almost) every round, not by luck.
		wtext, wkeys := wideDoc(*g, 400)
		wtypes := []int{tyByName("[]int"), tyByName("[]interface {}"), tyByName("[]string")}
		wfresh := map[request]outcome{}
		var wkeep []round
		for c := 0; c < 24 && !tooManyHangs(); c++ {
			per := make([][]request, *g)
			for i := range per {
				// own key first (a miss for every goroutine), then two other goroutines' keys as another type
				per[i] = append(per[i], request{"Get", wkeys[i], wtypes[(c+i)%len(wtypes)]})
				per[i] = append(per[i], request{"Get", wkeys[(i+1)%len(wkeys)], wtypes[(c+i+1)%len(wtypes)]})
				per[i] = append(per[i], request{"MustGet", wkeys[(i+5)%len(wkeys)], wtypes[(c+i+2)%len(wtypes)]})
			}
			for _, l := range per {
				for _, q := range l {
					if _, ok := wfresh[q]; !ok {
						wfresh[q] = watch(func() outcome { return q.run(load(wtext)) })
					}
				}
			}
			ops, obs := flatten(runWorkers(load(wtext), per))
			bad := false
			for i, q := range ops {
				if obs[i].Kind != wfresh[q].Kind || obs[i].Val != wfresh[q].Val || obs[i].Kind == "panic" {
					bad = true
				}
			}
			stressRounds++
			wideRounds++
			if bad {
				stressMismatch++
				wideMismatch++
			}
			if (c < 1 || bad) && len(wkeep) < 3 {
				wkeep = append(wkeep, round{ops, obs})
			}
		}
		for _, k := range wkeep {
			emit(out, "stress", wtext, k.ops, k.obs, *g)
		}
	case "concurrent":
		for c := 0; c < *n && !tooManyHangs(); c++ {
			per := make([][]request, *g)
			for i := range per {
				per[i] = randomHistory(r, keys, pairs, 1+r.IntN(*hlen))
			}
			ops, obs := flatten(runWorkers(load(text), per))
			emit(out, "concurrent", text, ops, obs, *g)
		}
	default:
		for c := 0; c < *n && !tooManyHangs(); c++ {
			if c%5 == 4 {
				two("random", randomHistory(r, keys, pairs, 1+r.IntN(*hlen)))
				continue
			}
			seq("random", randomHistory(r, keys, pairs, 1+r.IntN(*hlen)))
		}
	}
}
