// xlate_maprange — (T) tie of property C14.
//
// Lists every source of map iteration order in the generator packages (gsort/gen, genum/gen,
// gerror/gen, gencommon; test files excluded):
//   - every `for ... range X` statement whose X has a map type;
//   - every call of the standard library's maps.Keys / maps.Values / maps.All (iterators over a
//     map in its iteration order);
//   - every call of a function or method of gtools' helper package `set` that itself ranges over
//     a map and returns something (e.g. Set.Slice): computed, not listed by hand — the helper
//     package is loaded too and its functions are scanned for map ranges / maps.* calls;
//
// together with the enclosing function, the expression as written and its type / callee, and
// writes them as a Gallina list (MapRangeGen.v, gen_map_ranges).
//
// A second list, gen_pkg_state, has every package-level `var` of those packages whose type can
// hold state that outlives one generation (anything but a basic type or string: maps, slices,
// pointers, sync.Map, mutexes, structs, interfaces, funcs): process-wide state through which
// one generation could influence the next one in the same process.
// The committed tie coq/ties/Tie_C14.v states that this list is exactly the set of map ranges
// the GenDet model accounts for; a new map range in a generator breaks the tie even when the
// outputs of the sampled definitions happen to agree.
//
// Types come from go/types through golang.org/x/tools/go/packages (offline: the scratch copy of
// the repository is a workspace, its dependencies are in the module cache).
//
//	xlate_maprange -repo SCRATCHREPO -out FILE
package main

import (
	"flag"
	"fmt"
	"go/ast"
	"go/token"
	"go/types"
	"os"
	"path/filepath"
	"sort"
	"strings"

	"golang.org/x/tools/go/packages"
)

type row struct {
	pkg, file, fn, expr, typ string
	pos                      int
	// normalised view (what the tie compares): kind of the map's key type and the effect class
	// of the loop body; for a call row: "call" and the callee
	key, class string
}

// ---------------------------------------------------------------- effect classes
//
// The effect class of a `range` over a map says in which ways the loop body can let the
// iteration order out of the loop; it is computed from the syntax of the body (calls of
// functions and methods of the same package are followed, three levels deep):
//
//   return       the body can return from the function (a search that stops at a match)
//   append       x = append(x, ...) on a variable that outlives an iteration
//   set-const    a constant is assigned to such a variable (or through the loop variables)
//   assign       any other assignment to such a variable
//   delete       delete(m, k) on such a map
//   call:p.F     a call of a function known to write to its arguments or to the outside
//                world (log, fmt printing, os, sort, mutating functions of slices)
//   then-sorted  added when, after the loop, the enclosing function sorts a variable the body
//                appends or assigns to (sort.Sort/Stable/Slice*, slices.Sort*)
//
// The names of functions, variables and files do not enter.

type effects map[string]bool

var effectful = map[string]bool{
	"log.Printf": true, "log.Println": true, "log.Print": true, "log.Fatalf": true, "log.Fatal": true,
	"fmt.Printf": true, "fmt.Println": true, "fmt.Print": true, "fmt.Fprintf": true, "fmt.Fprintln": true, "fmt.Fprint": true,
	"slices.DeleteFunc": true, "slices.Delete": true, "slices.Insert": true, "slices.Reverse": true,
	"os.WriteFile": true, "os.Remove": true, "os.Setenv": true,
}

var sorters = map[string]bool{
	"sort.Sort": true, "sort.Stable": true, "sort.Slice": true, "sort.SliceStable": true, "sort.Strings": true, "sort.Ints": true,
	"slices.Sort": true, "slices.SortFunc": true, "slices.SortStableFunc": true,
}

func rootIdent(e ast.Expr) *ast.Ident {
	for {
		switch v := e.(type) {
		case *ast.Ident:
			return v
		case *ast.SelectorExpr:
			e = v.X
		case *ast.IndexExpr:
			e = v.X
		case *ast.StarExpr:
			e = v.X
		case *ast.ParenExpr:
			e = v.X
		case *ast.UnaryExpr:
			e = v.X
		case *ast.SliceExpr:
			e = v.X
		default:
			return nil
		}
	}
}

func isConstExpr(e ast.Expr) bool {
	switch v := e.(type) {
	case *ast.BasicLit:
		return true
	case *ast.Ident:
		return v.Name == "true" || v.Name == "false" || v.Name == "nil"
	}
	return false
}

type classifier struct {
	p     *packages.Package
	decls map[*types.Func]*ast.FuncDecl
}

func (c *classifier) qualified(call *ast.CallExpr) string {
	sel, ok := ast.Unparen(call.Fun).(*ast.SelectorExpr)
	if !ok {
		return ""
	}
	if id, ok := sel.X.(*ast.Ident); ok {
		if pn, ok := c.p.TypesInfo.Uses[id].(*types.PkgName); ok {
			return pn.Imported().Name() + "." + sel.Sel.Name
		}
	}
	return ""
}

// scan collects the effects of the statements in `body`.  inner(obj): the object is declared
// inside the scanned region (writes to it do not leave an iteration / the callee).
// written: the objects (of the scanning function's frame) that the region writes to.
func (c *classifier) scan(body ast.Node, lo, hi token.Pos, loopVars map[types.Object]bool, eff effects,
	written map[types.Object]bool, inLoop bool, depth int, argOf map[types.Object]types.Object) {
	info := c.p.TypesInfo
	outer := func(id *ast.Ident) (types.Object, bool) {
		if id == nil {
			return nil, false
		}
		obj := info.ObjectOf(id)
		if obj == nil {
			return nil, false
		}
		if loopVars[obj] {
			return obj, true // writing THROUGH a loop variable reaches the ranged collection
		}
		if a, ok := argOf[obj]; ok {
			return a, true // a parameter that stands for a variable of the caller
		}
		if obj.Pos() >= lo && obj.Pos() < hi {
			return obj, false
		}
		return obj, true
	}
	ast.Inspect(body, func(n ast.Node) bool {
		switch x := n.(type) {
		case *ast.FuncLit:
			// a closure: its `return` ends the closure, not the loop
			c.scan(x.Body, lo, hi, loopVars, eff, written, false, depth, argOf)
			return false
		case *ast.ReturnStmt:
			if inLoop {
				eff["return"] = true
			}
		case *ast.IncDecStmt:
			if obj, ok := outer(rootIdent(x.X)); ok {
				eff["assign"] = true
				written[obj] = true
			}
		case *ast.AssignStmt:
			for i, lhs := range x.Lhs {
				id := rootIdent(lhs)
				if id == nil || id.Name == "_" {
					continue
				}
				if x.Tok == token.DEFINE {
					if _, isIdent := lhs.(*ast.Ident); isIdent {
						continue
					}
				}
				obj, ok := outer(id)
				if !ok {
					continue
				}
				// a plain write to the loop variable itself (not through it) stays local
				if _, isIdent := lhs.(*ast.Ident); isIdent && loopVars[obj] {
					continue
				}
				written[obj] = true
				var rhs ast.Expr
				if len(x.Rhs) == len(x.Lhs) {
					rhs = x.Rhs[i]
				}
				switch {
				case rhs != nil && isAppendTo(rhs, id, info):
					eff["append"] = true
				case rhs != nil && isConstExpr(rhs):
					eff["set-const"] = true
				default:
					eff["assign"] = true
				}
			}
		case *ast.CallExpr:
			if id, ok := ast.Unparen(x.Fun).(*ast.Ident); ok && id.Name == "delete" && len(x.Args) == 2 {
				if _, isBuiltin := info.Uses[id].(*types.Builtin); isBuiltin {
					if obj, ok := outer(rootIdent(x.Args[0])); ok {
						eff["delete"] = true
						written[obj] = true
					}
				}
			}
			if q := c.qualified(x); q != "" {
				if effectful[q] {
					eff["call:"+q] = true
				}
				if sorters[q] && len(x.Args) > 0 {
					if obj, ok := outer(rootIdent(x.Args[0])); ok {
						eff["call:"+q] = true
						written[obj] = true
					}
				}
				return true
			}
			// a function or method of this package: follow it
			fn := calleeFunc(info, x)
			if fn == nil || fn.Pkg() != c.p.Types || depth >= 3 {
				return true
			}
			fd := c.decls[fn.Origin()]
			if fd == nil || fd.Body == nil {
				return true
			}
			// parameters (and the receiver) stand for the caller's argument variables
			sub := map[types.Object]types.Object{}
			var params []*ast.Ident
			if fd.Recv != nil {
				for _, f := range fd.Recv.List {
					params = append(params, f.Names...)
				}
			}
			args := x.Args
			if fd.Recv != nil {
				if sel, ok := ast.Unparen(x.Fun).(*ast.SelectorExpr); ok {
					args = append([]ast.Expr{sel.X}, args...)
				}
			}
			for _, f := range fd.Type.Params.List {
				params = append(params, f.Names...)
			}
			for i, pid := range params {
				if i >= len(args) {
					break
				}
				if obj, ok := outer(rootIdent(args[i])); ok && obj != nil {
					if po := info.ObjectOf(pid); po != nil {
						sub[po] = obj
					}
				}
			}
			// writes inside the callee matter when they go through a parameter that stands for
			// an outer variable of ours, or to a package-level variable
			calleeWritten := map[types.Object]bool{}
			ce := effects{}
			c.scan(fd.Body, fd.Pos(), fd.End(), nil, ce, calleeWritten, false, depth+1, sub)
			for obj := range calleeWritten {
				isParam := false
				for _, pid := range params {
					if info.ObjectOf(pid) == obj {
						isParam = true
					}
				}
				if isParam {
					continue // a parameter that is not one of our outer variables: a copy
				}
				if obj.Parent() == c.p.Types.Scope() || isMapped(sub, obj) {
					written[obj] = true
					for k := range ce {
						if !strings.HasPrefix(k, "call:") {
							eff[k] = true
						}
					}
				}
			}
			for k := range ce {
				if strings.HasPrefix(k, "call:") {
					eff[k] = true
				}
			}
		}
		return true
	})
}

func isMapped(sub map[types.Object]types.Object, obj types.Object) bool {
	for _, v := range sub {
		if v == obj {
			return true
		}
	}
	return false
}

func isAppendTo(rhs ast.Expr, lhsRoot *ast.Ident, info *types.Info) bool {
	call, ok := ast.Unparen(rhs).(*ast.CallExpr)
	if !ok || len(call.Args) == 0 {
		return false
	}
	id, ok := ast.Unparen(call.Fun).(*ast.Ident)
	if !ok || id.Name != "append" {
		return false
	}
	if _, isBuiltin := info.Uses[id].(*types.Builtin); !isBuiltin {
		return false
	}
	r := rootIdent(call.Args[0])
	return r != nil && info.ObjectOf(r) == info.ObjectOf(lhsRoot)
}

func calleeFunc(info *types.Info, call *ast.CallExpr) *types.Func {
	var id *ast.Ident
	switch f := ast.Unparen(call.Fun).(type) {
	case *ast.Ident:
		id = f
	case *ast.SelectorExpr:
		id = f.Sel
	case *ast.IndexExpr:
		switch g := ast.Unparen(f.X).(type) {
		case *ast.Ident:
			id = g
		case *ast.SelectorExpr:
			id = g.Sel
		}
	}
	if id == nil {
		return nil
	}
	fn, _ := info.Uses[id].(*types.Func)
	return fn
}

// classOf: the effect class of one range statement inside function fd.
func (c *classifier) classOf(fd *ast.FuncDecl, rs *ast.RangeStmt) string {
	info := c.p.TypesInfo
	loopVars := map[types.Object]bool{}
	for _, e := range []ast.Expr{rs.Key, rs.Value} {
		if id, ok := e.(*ast.Ident); ok && id.Name != "_" {
			if obj := info.ObjectOf(id); obj != nil {
				loopVars[obj] = true
			}
		}
	}
	eff, written := effects{}, map[types.Object]bool{}
	c.scan(rs.Body, rs.Body.Pos(), rs.Body.End(), loopVars, eff, written, true, 0, nil)
	// is something the body writes sorted later in the function?
	ast.Inspect(fd.Body, func(n ast.Node) bool {
		call, ok := n.(*ast.CallExpr)
		if !ok || call.Pos() < rs.End() || len(call.Args) == 0 {
			return true
		}
		if q := c.qualified(call); sorters[q] {
			arg := call.Args[0]
			if conv, ok := ast.Unparen(arg).(*ast.CallExpr); ok && len(conv.Args) == 1 {
				arg = conv.Args[0] // sort.Sort(Fields(r))
			}
			if r := rootIdent(arg); r != nil && written[info.ObjectOf(r)] {
				eff["then-sorted"] = true
			}
		}
		return true
	})
	var ks []string
	for k := range eff {
		ks = append(ks, k)
	}
	sort.Strings(ks)
	if len(ks) == 0 {
		return "no-effect"
	}
	return strings.Join(ks, "+")
}

// plain: a value without pointers, maps, slices, channels, funcs or interfaces inside.
func plain(t types.Type) bool {
	switch u := t.Underlying().(type) {
	case *types.Basic:
		return u.Kind() != types.UnsafePointer
	case *types.Struct:
		for i := 0; i < u.NumFields(); i++ {
			if !plain(u.Field(i).Type()) {
				return false
			}
		}
		return true
	case *types.Array:
		return plain(u.Elem())
	}
	return false
}

func plainElems(t types.Type) bool {
	if t == nil {
		return false
	}
	switch u := t.Underlying().(type) {
	case *types.Slice:
		return plain(u.Elem())
	case *types.Array:
		return plain(u.Elem())
	case *types.Map:
		return plain(u.Key()) && plain(u.Elem())
	}
	return false
}

func keyKind(t types.Type) string {
	m, ok := t.Underlying().(*types.Map)
	if !ok {
		return "?"
	}
	switch k := m.Key().Underlying().(type) {
	case *types.Basic:
		return k.Name()
	case *types.Interface:
		return "interface"
	case *types.Pointer:
		return "pointer"
	case *types.Struct:
		return "struct"
	}
	return "other"
}

func recvName(fd *ast.FuncDecl) string {
	if fd.Recv == nil || len(fd.Recv.List) == 0 {
		return fd.Name.Name
	}
	t := fd.Recv.List[0].Type
	if s, ok := t.(*ast.StarExpr); ok {
		t = s.X
	}
	if ix, ok := t.(*ast.IndexExpr); ok {
		t = ix.X
	}
	if id, ok := t.(*ast.Ident); ok {
		return id.Name + "." + fd.Name.Name
	}
	return fd.Name.Name
}

func gstr(s string) string { return "\"" + strings.ReplaceAll(s, "\"", "\"\"") + "\"%string" }

func main() {
	repo := flag.String("repo", "", "scratch copy of the repository")
	out := flag.String("out", "", "output .v file")
	flag.Parse()
	pkgs := []string{"gsort/gen", "genum/gen", "gerror/gen", "gencommon"}
	cfg := &packages.Config{
		Mode: packages.NeedName | packages.NeedFiles | packages.NeedCompiledGoFiles | packages.NeedImports |
			packages.NeedDeps | packages.NeedTypes | packages.NeedTypesInfo | packages.NeedSyntax,
		Dir: *repo,
		Env: append(os.Environ(), "GOFLAGS=", "GOWORK=", "GOPROXY=off", "GOSUMDB=off", "GOTOOLCHAIN=local"),
	}
	helpers := []string{"set"}
	var pats []string
	for _, p := range append(append([]string{}, pkgs...), helpers...) {
		pats = append(pats, "./"+p)
	}
	loaded, err := packages.Load(cfg, pats...)
	if err != nil {
		fmt.Fprintln(os.Stderr, "load:", err)
		os.Exit(1)
	}
	isMap := func(p *packages.Package, e ast.Expr) (types.Type, bool) {
		t := p.TypesInfo.TypeOf(e)
		if t == nil {
			return nil, false
		}
		_, ok := t.Underlying().(*types.Map)
		return t, ok
	}
	// callee of a call expression (generic instantiations reduced to their origin)
	calleeOf := func(p *packages.Package, call *ast.CallExpr) *types.Func {
		var id *ast.Ident
		switch f := ast.Unparen(call.Fun).(type) {
		case *ast.Ident:
			id = f
		case *ast.SelectorExpr:
			id = f.Sel
		case *ast.IndexExpr:
			switch g := ast.Unparen(f.X).(type) {
			case *ast.Ident:
				id = g
			case *ast.SelectorExpr:
				id = g.Sel
			}
		}
		if id == nil {
			return nil
		}
		if fn, ok := p.TypesInfo.Uses[id].(*types.Func); ok {
			return fn.Origin()
		}
		return nil
	}
	isMapsIter := func(fn *types.Func) bool {
		return fn != nil && fn.Pkg() != nil && fn.Pkg().Path() == "maps" &&
			(fn.Name() == "Keys" || fn.Name() == "Values" || fn.Name() == "All")
	}
	isHelper := func(path string) bool {
		for _, h := range helpers {
			if strings.HasSuffix(path, "/gtools/"+h) {
				return true
			}
		}
		return false
	}
	// pass 1: functions of the helper packages that iterate a map and return something
	orderSource := map[string]bool{}
	for _, p := range loaded {
		if !isHelper(p.PkgPath) {
			continue
		}
		for _, f := range p.Syntax {
			for _, decl := range f.Decls {
				fd, ok := decl.(*ast.FuncDecl)
				if !ok || fd.Body == nil || fd.Type.Results == nil || len(fd.Type.Results.List) == 0 {
					continue
				}
				iterates := false
				ast.Inspect(fd.Body, func(n ast.Node) bool {
					switch x := n.(type) {
					case *ast.RangeStmt:
						if _, ok := isMap(p, x.X); ok {
							iterates = true
						}
					case *ast.CallExpr:
						if isMapsIter(calleeOf(p, x)) {
							iterates = true
						}
					}
					return true
				})
				if iterates {
					if fn, ok := p.TypesInfo.Defs[fd.Name].(*types.Func); ok {
						orderSource[fn.FullName()] = true
					}
				}
			}
		}
	}
	var rows []row
	for _, p := range loaded {
		if isHelper(p.PkgPath) {
			continue
		}
		short := p.PkgPath
		if k := strings.Index(short, "/gtools/"); k >= 0 {
			short = short[k+len("/gtools/"):]
		}
		if len(p.Errors) > 0 {
			fmt.Fprintln(os.Stderr, "package", p.PkgPath, "has errors:", p.Errors[0])
			os.Exit(1)
		}
		qual := func(q *types.Package) string { return q.Name() }
		cl := &classifier{p: p, decls: map[*types.Func]*ast.FuncDecl{}}
		for _, f := range p.Syntax {
			for _, decl := range f.Decls {
				if fd, ok := decl.(*ast.FuncDecl); ok {
					if fn, ok := p.TypesInfo.Defs[fd.Name].(*types.Func); ok {
						cl.decls[fn] = fd
					}
				}
			}
		}
		for i, f := range p.Syntax {
			file := filepath.Base(p.CompiledGoFiles[i])
			if strings.HasSuffix(file, "_test.go") {
				continue
			}
			for _, decl := range f.Decls {
				fd, ok := decl.(*ast.FuncDecl)
				if !ok || fd.Body == nil {
					continue
				}
				ast.Inspect(fd.Body, func(n ast.Node) bool {
					switch x := n.(type) {
					case *ast.RangeStmt:
						if t, ok := isMap(p, x.X); ok {
							rows = append(rows, row{short, file, recvName(fd), types.ExprString(x.X),
								types.TypeString(t.Underlying(), qual), int(x.Pos()), keyKind(t), cl.classOf(fd, x)})
						}
					case *ast.CallExpr:
						fn := calleeOf(p, x)
						if isMapsIter(fn) || (fn != nil && orderSource[fn.FullName()]) {
							rows = append(rows, row{short, file, recvName(fd), "call " + types.ExprString(x.Fun),
								fn.FullName(), int(x.Pos()), "call", fn.FullName()})
						}
					}
					return true
				})
			}
		}
	}
	// package-level variables that can carry state
	type vrow struct{ pkg, file, name, typ string }
	var vrows []vrow
	// readOnly: every use of the variable in the package only reads its elements — it is the
	// operand of a `range`, of len/cap, or of an index / selector expression that is itself only
	// read (never assigned to, never has its address taken, never passed on or called upon).
	// Such a variable (a fixed table) cannot carry anything from one generation to the next.
	readOnly := func(p *packages.Package, obj *types.Var) bool {
		ok := true
		for _, f := range p.Syntax {
			var stack []ast.Node
			ast.Inspect(f, func(n ast.Node) bool {
				if n == nil {
					stack = stack[:len(stack)-1]
					return true
				}
				stack = append(stack, n)
				id, isID := n.(*ast.Ident)
				if !isID || p.TypesInfo.Uses[id] != obj {
					return true
				}
				// climb through index / selector / paren expressions that wrap the use
				k := len(stack) - 2
				var child ast.Node = id
				for k >= 0 {
					switch par := stack[k].(type) {
					case *ast.IndexExpr:
						if par.X == child {
							child = par
							k--
							continue
						}
					case *ast.SelectorExpr:
						if par.X == child {
							child = par
							k--
							continue
						}
					case *ast.ParenExpr:
						child = par
						k--
						continue
					}
					break
				}
				if k < 0 {
					ok = false
					return true
				}
				switch par := stack[k].(type) {
				case *ast.RangeStmt:
					// the loop variables must be copies of plain values (no pointer to hand out)
					if par.X != child || !plainElems(p.TypesInfo.TypeOf(par.X)) {
						ok = false
					}
				case *ast.CallExpr:
					fn, isIdent := par.Fun.(*ast.Ident)
					if !isIdent || (fn.Name != "len" && fn.Name != "cap") {
						ok = false
					} else if _, isBuiltin := p.TypesInfo.Uses[fn].(*types.Builtin); !isBuiltin {
						ok = false
					}
				case *ast.BinaryExpr, *ast.IfStmt, *ast.SwitchStmt, *ast.CaseClause, *ast.ReturnStmt:
					// a value read: fine when what is read is a basic value (an element's field)
					if e, isExpr := child.(ast.Expr); isExpr {
						if _, basic := p.TypesInfo.TypeOf(e).Underlying().(*types.Basic); !basic {
							ok = false
						}
					} else {
						ok = false
					}
				default:
					ok = false
				}
				return true
			})
		}
		return ok
	}
	for _, p := range loaded {
		if isHelper(p.PkgPath) {
			continue
		}
		short := p.PkgPath
		if k := strings.Index(short, "/gtools/"); k >= 0 {
			short = short[k+len("/gtools/"):]
		}
		for i, f := range p.Syntax {
			file := filepath.Base(p.CompiledGoFiles[i])
			if strings.HasSuffix(file, "_test.go") {
				continue
			}
			for _, decl := range f.Decls {
				// an init() can rewrite any package-level table before the first generation: each
				// one is listed (the tie accounts for them by package)
				if fd, ok := decl.(*ast.FuncDecl); ok && fd.Recv == nil && fd.Name.Name == "init" {
					vrows = append(vrows, vrow{short, file, "init", "func init()"})
					continue
				}
				gd, ok := decl.(*ast.GenDecl)
				if !ok || gd.Tok.String() != "var" {
					continue
				}
				for _, sp := range gd.Specs {
					vs := sp.(*ast.ValueSpec)
					for _, id := range vs.Names {
						obj, ok := p.TypesInfo.Defs[id].(*types.Var)
						if !ok || id.Name == "_" {
							continue
						}
						if _, basic := obj.Type().Underlying().(*types.Basic); basic {
							continue
						}
						if readOnly(p, obj) {
							continue
						}
						vrows = append(vrows, vrow{short, file, id.Name,
							types.TypeString(obj.Type(), func(q *types.Package) string { return q.Name() })})
					}
				}
			}
		}
	}
	sort.SliceStable(vrows, func(i, j int) bool {
		if vrows[i].pkg != vrows[j].pkg {
			return vrows[i].pkg < vrows[j].pkg
		}
		if vrows[i].file != vrows[j].file {
			return vrows[i].file < vrows[j].file
		}
		return vrows[i].name < vrows[j].name
	})
	sort.SliceStable(rows, func(i, j int) bool {
		if rows[i].pkg != rows[j].pkg {
			return rows[i].pkg < rows[j].pkg
		}
		if rows[i].file != rows[j].file {
			return rows[i].file < rows[j].file
		}
		return rows[i].pos < rows[j].pos
	})
	var b strings.Builder
	b.WriteString("(* MapRangeGen.v — regenerated by harness/cmd/xlate_maprange on every run of ./check C14.\n" +
		"   One row per source of map iteration order in the generator packages: a `range` over a\n" +
		"   map-typed expression (package, file, enclosing function, ranged expression, its map type)\n" +
		"   or a call of maps.Keys/Values/All or of a map-iterating function of gtools/set\n" +
		"   (package, file, enclosing function, \"call <fun>\", callee). *)\n")
	b.WriteString("From Coq Require Import List String.\nImport ListNotations.\n\n")
	b.WriteString("Definition gen_map_ranges : list (string * string * string * string * string) := [\n")
	for i, r := range rows {
		sep := ";"
		if i == len(rows)-1 {
			sep = ""
		}
		fmt.Fprintf(&b, "  (%s, %s, %s, %s, %s)%s\n", gstr(r.pkg), gstr(r.file), gstr(r.fn), gstr(r.expr), gstr(r.typ), sep)
	}
	b.WriteString("].\n\n(* package-level variables of a non-basic type: (package, file, name, type) *)\n")
	b.WriteString("Definition gen_pkg_state : list (string * string * string * string) := [\n")
	for i, r := range vrows {
		sep := ";"
		if i == len(vrows)-1 {
			sep = ""
		}
		fmt.Fprintf(&b, "  (%s, %s, %s, %s)%s\n", gstr(r.pkg), gstr(r.file), gstr(r.name), gstr(r.typ), sep)
	}
	b.WriteString("].\n\n")
	// the normalised lists the tie compares: independent of the names of functions, variables,
	// files and types, of the position in the package and of the spelling of the loop
	norm := make([][3]string, len(rows))
	for i, r := range rows {
		norm[i] = [3]string{r.pkg, r.key, r.class}
	}
	sort.Slice(norm, func(i, j int) bool {
		for k := 0; k < 3; k++ {
			if norm[i][k] != norm[j][k] {
				return norm[i][k] < norm[j][k]
			}
		}
		return false
	})
	b.WriteString("(* (package, kind of the map's key type | \"call\", effect class of the loop body | callee),\n   sorted: see the effect classes in harness/cmd/xlate_maprange *)\n")
	b.WriteString("Definition gen_order_sources : list (string * string * string) := [\n")
	for i, r := range norm {
		sep := ";"
		if i == len(norm)-1 {
			sep = ""
		}
		fmt.Fprintf(&b, "  (%s, %s, %s)%s\n", gstr(r[0]), gstr(r[1]), gstr(r[2]), sep)
	}
	b.WriteString("].\n\n(* (package, type) of the package-level variables of a non-basic type, sorted *)\n")
	vn := make([][2]string, len(vrows))
	for i, r := range vrows {
		vn[i] = [2]string{r.pkg, r.typ}
	}
	sort.Slice(vn, func(i, j int) bool {
		if vn[i][0] != vn[j][0] {
			return vn[i][0] < vn[j][0]
		}
		return vn[i][1] < vn[j][1]
	})
	b.WriteString("Definition gen_state_types : list (string * string) := [\n")
	for i, r := range vn {
		sep := ";"
		if i == len(vn)-1 {
			sep = ""
		}
		fmt.Fprintf(&b, "  (%s, %s)%s\n", gstr(r[0]), gstr(r[1]), sep)
	}
	b.WriteString("].\n")
	if err := os.WriteFile(*out, []byte(b.String()), 0o644); err != nil {
		fmt.Fprintln(os.Stderr, err)
		os.Exit(1)
	}
}
