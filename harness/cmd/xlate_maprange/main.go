// xlate_maprange — (T) tie of property C14.
//
// Lists every source of map iteration order in the generator packages (gsort/gen, genum/gen,
// gerror/gen, gencommon; test files excluded):
//   - every `for ... range X` statement whose X has a map type;
//   - every call of the standard library's maps.Keys / maps.Values / maps.All (iterators over a
//     map in its iteration order);
//   - every call of a function or method of gtools' helper package `set` that itself ranges over
//     a map and returns something (e.g. Set.Slice): computed, not listed by hand — the helper
//     package is loaded too and its functions are scanned for map ranges / maps.* calls;
//
// together with the enclosing function, the expression as written and its type / callee, and
// writes them as a Gallina list (MapRangeGen.v, gen_map_ranges).
//
// A second list, gen_pkg_state, has every package-level `var` of those packages whose type can
// hold state that outlives one generation (anything but a basic type or string: maps, slices,
// pointers, sync.Map, mutexes, structs, interfaces, funcs): process-wide state through which
// one generation could influence the next one in the same process.
// The committed tie coq/ties/Tie_C14.v states that this list is exactly the set of map ranges
// the GenDet model accounts for; a new map range in a generator breaks the tie even when the
// outputs of the sampled definitions happen to agree.
//
// Types come from go/types through golang.org/x/tools/go/packages (offline: the scratch copy of
// the repository is a workspace, its dependencies are in the module cache).
//
//	xlate_maprange -repo SCRATCHREPO -out FILE
package main

import (
	"flag"
	"fmt"
	"go/ast"
	"go/types"
	"os"
	"path/filepath"
	"sort"
	"strings"

	"golang.org/x/tools/go/packages"
)

type row struct {
	pkg, file, fn, expr, typ string
	pos                      int
}

func recvName(fd *ast.FuncDecl) string {
	if fd.Recv == nil || len(fd.Recv.List) == 0 {
		return fd.Name.Name
	}
	t := fd.Recv.List[0].Type
	if s, ok := t.(*ast.StarExpr); ok {
		t = s.X
	}
	if ix, ok := t.(*ast.IndexExpr); ok {
		t = ix.X
	}
	if id, ok := t.(*ast.Ident); ok {
		return id.Name + "." + fd.Name.Name
	}
	return fd.Name.Name
}

func gstr(s string) string { return "\"" + strings.ReplaceAll(s, "\"", "\"\"") + "\"%string" }

func main() {
	repo := flag.String("repo", "", "scratch copy of the repository")
	out := flag.String("out", "", "output .v file")
	flag.Parse()
	pkgs := []string{"gsort/gen", "genum/gen", "gerror/gen", "gencommon"}
	cfg := &packages.Config{
		Mode: packages.NeedName | packages.NeedFiles | packages.NeedCompiledGoFiles | packages.NeedImports |
			packages.NeedDeps | packages.NeedTypes | packages.NeedTypesInfo | packages.NeedSyntax,
		Dir: *repo,
		Env: append(os.Environ(), "GOFLAGS=", "GOWORK=", "GOPROXY=off", "GOSUMDB=off", "GOTOOLCHAIN=local"),
	}
	helpers := []string{"set"}
	var pats []string
	for _, p := range append(append([]string{}, pkgs...), helpers...) {
		pats = append(pats, "./"+p)
	}
	loaded, err := packages.Load(cfg, pats...)
	if err != nil {
		fmt.Fprintln(os.Stderr, "load:", err)
		os.Exit(1)
	}
	isMap := func(p *packages.Package, e ast.Expr) (types.Type, bool) {
		t := p.TypesInfo.TypeOf(e)
		if t == nil {
			return nil, false
		}
		_, ok := t.Underlying().(*types.Map)
		return t, ok
	}
	// callee of a call expression (generic instantiations reduced to their origin)
	calleeOf := func(p *packages.Package, call *ast.CallExpr) *types.Func {
		var id *ast.Ident
		switch f := ast.Unparen(call.Fun).(type) {
		case *ast.Ident:
			id = f
		case *ast.SelectorExpr:
			id = f.Sel
		case *ast.IndexExpr:
			switch g := ast.Unparen(f.X).(type) {
			case *ast.Ident:
				id = g
			case *ast.SelectorExpr:
				id = g.Sel
			}
		}
		if id == nil {
			return nil
		}
		if fn, ok := p.TypesInfo.Uses[id].(*types.Func); ok {
			return fn.Origin()
		}
		return nil
	}
	isMapsIter := func(fn *types.Func) bool {
		return fn != nil && fn.Pkg() != nil && fn.Pkg().Path() == "maps" &&
			(fn.Name() == "Keys" || fn.Name() == "Values" || fn.Name() == "All")
	}
	isHelper := func(path string) bool {
		for _, h := range helpers {
			if strings.HasSuffix(path, "/gtools/"+h) {
				return true
			}
		}
		return false
	}
	// pass 1: functions of the helper packages that iterate a map and return something
	orderSource := map[string]bool{}
	for _, p := range loaded {
		if !isHelper(p.PkgPath) {
			continue
		}
		for _, f := range p.Syntax {
			for _, decl := range f.Decls {
				fd, ok := decl.(*ast.FuncDecl)
				if !ok || fd.Body == nil || fd.Type.Results == nil || len(fd.Type.Results.List) == 0 {
					continue
				}
				iterates := false
				ast.Inspect(fd.Body, func(n ast.Node) bool {
					switch x := n.(type) {
					case *ast.RangeStmt:
						if _, ok := isMap(p, x.X); ok {
							iterates = true
						}
					case *ast.CallExpr:
						if isMapsIter(calleeOf(p, x)) {
							iterates = true
						}
					}
					return true
				})
				if iterates {
					if fn, ok := p.TypesInfo.Defs[fd.Name].(*types.Func); ok {
						orderSource[fn.FullName()] = true
					}
				}
			}
		}
	}
	var rows []row
	for _, p := range loaded {
		if isHelper(p.PkgPath) {
			continue
		}
		short := p.PkgPath
		if k := strings.Index(short, "/gtools/"); k >= 0 {
			short = short[k+len("/gtools/"):]
		}
		if len(p.Errors) > 0 {
			fmt.Fprintln(os.Stderr, "package", p.PkgPath, "has errors:", p.Errors[0])
			os.Exit(1)
		}
		qual := func(q *types.Package) string { return q.Name() }
		for i, f := range p.Syntax {
			file := filepath.Base(p.CompiledGoFiles[i])
			if strings.HasSuffix(file, "_test.go") {
				continue
			}
			for _, decl := range f.Decls {
				fd, ok := decl.(*ast.FuncDecl)
				if !ok || fd.Body == nil {
					continue
				}
				ast.Inspect(fd.Body, func(n ast.Node) bool {
					switch x := n.(type) {
					case *ast.RangeStmt:
						if t, ok := isMap(p, x.X); ok {
							rows = append(rows, row{short, file, recvName(fd), types.ExprString(x.X),
								types.TypeString(t.Underlying(), qual), int(x.Pos())})
						}
					case *ast.CallExpr:
						fn := calleeOf(p, x)
						if isMapsIter(fn) || (fn != nil && orderSource[fn.FullName()]) {
							rows = append(rows, row{short, file, recvName(fd), "call " + types.ExprString(x.Fun),
								fn.FullName(), int(x.Pos())})
						}
					}
					return true
				})
			}
		}
	}
	// package-level variables that can carry state
	type vrow struct{ pkg, file, name, typ string }
	var vrows []vrow
	for _, p := range loaded {
		if isHelper(p.PkgPath) {
			continue
		}
		short := p.PkgPath
		if k := strings.Index(short, "/gtools/"); k >= 0 {
			short = short[k+len("/gtools/"):]
		}
		for i, f := range p.Syntax {
			file := filepath.Base(p.CompiledGoFiles[i])
			if strings.HasSuffix(file, "_test.go") {
				continue
			}
			for _, decl := range f.Decls {
				gd, ok := decl.(*ast.GenDecl)
				if !ok || gd.Tok.String() != "var" {
					continue
				}
				for _, sp := range gd.Specs {
					vs := sp.(*ast.ValueSpec)
					for _, id := range vs.Names {
						obj, ok := p.TypesInfo.Defs[id].(*types.Var)
						if !ok || id.Name == "_" {
							continue
						}
						if _, basic := obj.Type().Underlying().(*types.Basic); basic {
							continue
						}
						vrows = append(vrows, vrow{short, file, id.Name,
							types.TypeString(obj.Type(), func(q *types.Package) string { return q.Name() })})
					}
				}
			}
		}
	}
	sort.SliceStable(vrows, func(i, j int) bool {
		if vrows[i].pkg != vrows[j].pkg {
			return vrows[i].pkg < vrows[j].pkg
		}
		if vrows[i].file != vrows[j].file {
			return vrows[i].file < vrows[j].file
		}
		return vrows[i].name < vrows[j].name
	})
	sort.SliceStable(rows, func(i, j int) bool {
		if rows[i].pkg != rows[j].pkg {
			return rows[i].pkg < rows[j].pkg
		}
		if rows[i].file != rows[j].file {
			return rows[i].file < rows[j].file
		}
		return rows[i].pos < rows[j].pos
	})
	var b strings.Builder
	b.WriteString("(* MapRangeGen.v — regenerated by harness/cmd/xlate_maprange on every run of ./check C14.\n" +
		"   One row per source of map iteration order in the generator packages: a `range` over a\n" +
		"   map-typed expression (package, file, enclosing function, ranged expression, its map type)\n" +
		"   or a call of maps.Keys/Values/All or of a map-iterating function of gtools/set\n" +
		"   (package, file, enclosing function, \"call <fun>\", callee). *)\n")
	b.WriteString("From Coq Require Import List String.\nImport ListNotations.\n\n")
	b.WriteString("Definition gen_map_ranges : list (string * string * string * string * string) := [\n")
	for i, r := range rows {
		sep := ";"
		if i == len(rows)-1 {
			sep = ""
		}
		fmt.Fprintf(&b, "  (%s, %s, %s, %s, %s)%s\n", gstr(r.pkg), gstr(r.file), gstr(r.fn), gstr(r.expr), gstr(r.typ), sep)
	}
	b.WriteString("].\n\n(* package-level variables of a non-basic type: (package, file, name, type) *)\n")
	b.WriteString("Definition gen_pkg_state : list (string * string * string * string) := [\n")
	for i, r := range vrows {
		sep := ";"
		if i == len(vrows)-1 {
			sep = ""
		}
		fmt.Fprintf(&b, "  (%s, %s, %s, %s)%s\n", gstr(r.pkg), gstr(r.file), gstr(r.name), gstr(r.typ), sep)
	}
	b.WriteString("].\n")
	if err := os.WriteFile(*out, []byte(b.String()), 0o644); err != nil {
		fmt.Fprintln(os.Stderr, err)
		os.Exit(1)
	}
}
