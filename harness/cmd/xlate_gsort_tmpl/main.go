// xlate_gsort_tmpl — (T) tie of property C08 for the template.
//
// Reads gsort/gen/gsort.gotmpl of the current tree with text/template/parse, finds the named
// template that the body of the generated `Less` invokes (the recursive key chain, today
// "PriorityBlock") and regenerates it as a Gallina term of the little template language of
// GSortTmplModel.v:
//
//	TText "..."            literal text (after the template's own trim markers)
//	TAcc                   {{.Accessor}}     of the current compare line
//	TStr                   {{.String}}
//	TIfNest [nodes]        {{if .HasNest}} / {{if .Nest}} ... {{end}}
//	TRec                   {{template "<itself>" .Nest}}
//	TUnknown "<source>"    anything else (the tie then fails)
//
// Template variables bound to the dot (`{{$line := .}}`) are read as the dot, so renaming them or
// introducing them changes nothing.  Standard library only.
//
//	xlate_gsort_tmpl -repo DIR -out FILE
package main

import (
	"flag"
	"fmt"
	"os"
	"path/filepath"
	"strings"
	"text/template/parse"

	"gtverif/internal/gentmpl"
)

func q(s string) string {
	var b strings.Builder
	b.WriteString("\"")
	for _, r := range s {
		if r == '"' {
			b.WriteString("\"\"")
		} else {
			b.WriteRune(r)
		}
	}
	return b.String() + "\""
}

type xl struct {
	self string
	dot  map[string]bool // variables bound to the dot
}

// field: the pipeline is a single field chain of the dot (or of a variable bound to it)
func (x *xl) field(p *parse.PipeNode) string {
	if p == nil || len(p.Decl) > 0 || len(p.Cmds) != 1 || len(p.Cmds[0].Args) != 1 {
		return ""
	}
	switch a := p.Cmds[0].Args[0].(type) {
	case *parse.FieldNode:
		return "." + strings.Join(a.Ident, ".")
	case *parse.VariableNode:
		if x.dot[a.Ident[0]] && len(a.Ident) > 1 {
			return "." + strings.Join(a.Ident[1:], ".")
		}
	}
	return ""
}

func (x *xl) nodes(l *parse.ListNode) []string {
	var out []string
	if l == nil {
		return out
	}
	for _, n := range l.Nodes {
		switch v := n.(type) {
		case *parse.TextNode:
			out = append(out, "TText "+q(string(v.Text)))
		case *parse.CommentNode:
		case *parse.ActionNode:
			if len(v.Pipe.Decl) == 1 && len(v.Pipe.Cmds) == 1 && len(v.Pipe.Cmds[0].Args) == 1 {
				if _, isDot := v.Pipe.Cmds[0].Args[0].(*parse.DotNode); isDot {
					x.dot[v.Pipe.Decl[0].Ident[0]] = true
					continue
				}
			}
			switch x.field(v.Pipe) {
			case ".Accessor":
				out = append(out, "TAcc")
			case ".String":
				out = append(out, "TStr")
			default:
				out = append(out, "TUnknown "+q(v.String()))
			}
		case *parse.IfNode:
			f := x.field(v.Pipe)
			if (f == ".HasNest" || f == ".Nest") && (v.ElseList == nil || len(v.ElseList.Nodes) == 0) {
				out = append(out, "TIfNest ["+strings.Join(x.nodes(v.List), "; ")+"]")
			} else {
				out = append(out, "TUnknown "+q(v.String()))
			}
		case *parse.TemplateNode:
			if v.Name == x.self && x.field(v.Pipe) == ".Nest" {
				out = append(out, "TRec")
			} else {
				out = append(out, "TUnknown "+q(v.String()))
			}
		default:
			out = append(out, "TUnknown "+q(n.String()))
		}
	}
	return out
}

// lessBody: the nodes of the generated Less between its header line and its closing brace, as
// tnodes: TBlock for the invocation of the recursive template on <sorter>.PriorityTree, TText for
// literal text, TUnknown for anything else (a statement added to Less next to the key chain).
func lessBody(l *parse.ListNode, self string) ([]string, bool) {
	if l == nil {
		return nil, false
	}
	for i, n := range l.Nodes {
		switch v := n.(type) {
		case *parse.TextNode:
			txt := string(v.Text)
			k := strings.Index(txt, ") Less(")
			if k < 0 {
				continue
			}
			var out []string
			rest := txt[k:]
			if b := strings.Index(rest, "{"); b >= 0 {
				if t := rest[b+1:]; strings.TrimSpace(t) != "" {
					out = append(out, "TText "+q(t))
				}
			}
			for _, m := range l.Nodes[i+1:] {
				switch w := m.(type) {
				case *parse.TextNode:
					t := string(w.Text)
					if e := strings.Index(t, "}"); e >= 0 {
						if strings.TrimSpace(t[:e]) != "" {
							out = append(out, "TText "+q(t[:e]))
						}
						return out, true
					}
					out = append(out, "TText "+q(t))
				case *parse.TemplateNode:
					arg := ""
					if w.Pipe != nil {
						arg = w.Pipe.String()
					}
					if w.Name == self && strings.HasSuffix(arg, ".PriorityTree") {
						out = append(out, "TBlock")
					} else {
						out = append(out, "TUnknown "+q(w.String()))
					}
				case *parse.CommentNode:
				default:
					out = append(out, "TUnknown "+q(m.String()))
				}
			}
			return out, true
		case *parse.RangeNode:
			if out, ok := lessBody(v.List, self); ok {
				return out, true
			}
		case *parse.IfNode:
			if out, ok := lessBody(v.List, self); ok {
				return out, true
			}
		case *parse.WithNode:
			if out, ok := lessBody(v.List, self); ok {
				return out, true
			}
		}
	}
	return nil, false
}

// lessTemplate: the name of the template invoked between `Less(` and the end of that func
func lessTemplate(l *parse.ListNode, seenLess *bool) string {
	if l == nil {
		return ""
	}
	for _, n := range l.Nodes {
		switch v := n.(type) {
		case *parse.TextNode:
			if strings.Contains(string(v.Text), ") Less(") {
				*seenLess = true
			}
		case *parse.TemplateNode:
			if *seenLess {
				return v.Name
			}
		case *parse.RangeNode:
			if s := lessTemplate(v.List, seenLess); s != "" {
				return s
			}
		case *parse.IfNode:
			if s := lessTemplate(v.List, seenLess); s != "" {
				return s
			}
		case *parse.WithNode:
			if s := lessTemplate(v.List, seenLess); s != "" {
				return s
			}
		}
	}
	return ""
}

func main() {
	repo := flag.String("repo", "/repo", "root of the tree to read")
	out := flag.String("out", "GsortTmplGen.v", "output file")
	flag.Parse()
	// the template the generator executes: found through the package's file set (go:embed), refused
	// when an init() or any other code can swap or reconfigure it
	found, err := gentmpl.Find(filepath.Join(*repo, "gsort", "gen"))
	if err != nil {
		fmt.Fprintln(os.Stderr, "xlate_gsort_tmpl:", err)
		os.Exit(1)
	}
	path := found.File
	raw, err := os.ReadFile(path)
	if err != nil {
		fmt.Fprintln(os.Stderr, "xlate_gsort_tmpl:", err)
		os.Exit(1)
	}
	trees := map[string]*parse.Tree{}
	t := parse.New("gsort.gotmpl") // the name of the root tree below
	t.Mode = parse.SkipFuncCheck
	if _, err := t.Parse(string(raw), "", "", trees); err != nil {
		fmt.Fprintln(os.Stderr, "xlate_gsort_tmpl:", err)
		os.Exit(1)
	}
	seen := false
	name := lessTemplate(trees["gsort.gotmpl"].Root, &seen)
	body := "[TUnknown \"no template invoked in Less\"]"
	if tr, ok := trees[name]; ok && name != "" {
		x := &xl{self: name, dot: map[string]bool{}}
		body = "[" + strings.Join(x.nodes(tr.Root), ";\n   ") + "]"
	}
	lb := "[TUnknown \"Less not found\"]"
	if nodes, ok := lessBody(trees["gsort.gotmpl"].Root, name); ok {
		lb = "[" + strings.Join(nodes, "; ") + "]"
	}
	text := "(* GsortTmplGen.v — REGENERATED on every run by harness/cmd/xlate_gsort_tmpl from\n" +
		"   gsort/gen/gsort.gotmpl (the template `" + name + "` invoked by the generated Less).  Do not edit. *)\n" +
		"From Coq Require Import String List.\nFrom GT Require Import GSortTmplModel.\nImport ListNotations.\nLocal Open Scope string_scope.\n\n" +
		"Definition gen_block : list tnode :=\n  " + body + ".\n\n" +
		"(* the body of the generated Less: what stands between its header and its closing brace *)\n" +
		"Definition gen_less_body : list tnode :=\n  " + lb + ".\n"
	if err := os.WriteFile(*out, []byte(text), 0o644); err != nil {
		fmt.Fprintln(os.Stderr, "xlate_gsort_tmpl:", err)
		os.Exit(1)
	}
}
