//go:build !wginstr

// The real harness (main.go, build tag wginstr) needs the instrumented scratch copy of gsync
// that props/wg_lib.py prepares; without it only this stub is built.
package main

import (
	"fmt"
	"os"
)

func main() {
	fmt.Fprintln(os.Stderr, "c01: built without -tags wginstr (no instrumented gsync); run through ./check C01")
	os.Exit(2)
}
