//go:build wginstr

// c01 — schedule replay of the real gsync.SelectableWaitGroup (properties C01 and C02).
//
// The scratch copy of gsync/selectable_wait_group.go has been rewritten by xlate_conc: a call
// verifYield(site) sits before every shared-memory operation.  This harness runs client
// programs (2-4 goroutines, each a short list of Add(+n) / Add(-n) / Wait) on a fresh wait
// group under the baton-passing scheduler gtverif/internal/vsched: exactly one goroutine runs
// between two yields, chosen by the schedule.  After every step it records the event of the
// step (call / return with value / internal), Count(), the closed-ness of every channel handed
// out so far (non-blocking select) and the site the thread is parked at.  After the schedule a
// WaitTimeout(5ms) probe runs under a watchdog.  Every case is written as a Gallina term of
// type WGJudge.wg_case and as JSON.
//
//	c01 -seed N -out PREFIX -mode corpus|random|pb|exhaustive|randprog|replay|stress [...]
package main

import (
	"encoding/json"
	"flag"
	"fmt"
	"math/rand/v2"
	"os"
	"runtime"
	"strings"
	"sync"
	"sync/atomic"
	"time"

	"github.com/drshriveer/gtools/gsync"

	"gtverif/internal/gal"
	"gtverif/internal/vsched"
)

type callT struct {
	K string `json:"k"` // "add" | "wait"
	D int    `json:"d"`
}

type itemT struct {
	Tid    int    `json:"tid"`
	Ev     string `json:"ev"` // call | ret | tau | stutter
	Call   *callT `json:"call,omitempty"`
	Val    int    `json:"val"` // Add: returned count; Wait: hand-out index of the channel
	Panic  bool   `json:"panic,omitempty"`
	Count  int    `json:"count"`
	Closed []int  `json:"closed"`
	Site   int    `json:"site"`
}

type caseT struct {
	Kind  string    `json:"kind"`
	Name  string    `json:"name"`
	Progs [][]callT `json:"progs"`
	Sched []int     `json:"sched"`
	Obs   []itemT   `json:"obs"`
	Tmo   int       `json:"tmo"` // 0 nil, 1 ErrWGTimeout, 2 hung, 3 not probed
	Pre   int       `json:"preemptions"`
}

const (
	soloBudget  = 8  // consecutive steps a thread may take inside one call before it is parked for good
	totalBudget = 40 // steps inside one call
)

var hook atomic.Pointer[vsched.Sched]

func init() {
	gsync.VerifYield = func(site int) {
		if s := hook.Load(); s != nil {
			s.Yield(site)
		}
	}
}

// chooser decides the next thread.  allowed = threads that may move (not finished, not stuck,
// next call keeps the lower bound non-negative), in increasing order.
type chooser interface {
	next(step int, last int, lastEnabled bool, allowed []int) int // -1 = stop
}

type runner struct {
	progs   [][]callT
	s       *vsched.Sched
	wg      *gsync.SelectableWaitGroup
	chans   []<-chan struct{}
	obs     []itemT
	sched   []int
	lb      int
	callIdx []int // index of the call the thread is in / will make next
	inCall  []bool
	inSteps []int // steps inside the current call
	solo    []int // consecutive steps of this thread
	stuck   []bool
	addsIn  int
	sum     int // sum of the deltas of all Add calls made so far
	pre     int
}

func chanIndex(r *runner, ch <-chan struct{}) int {
	for i, c := range r.chans {
		if c == ch {
			return i
		}
	}
	r.chans = append(r.chans, ch)
	return len(r.chans) - 1
}

func isClosed(ch <-chan struct{}) bool {
	select {
	case <-ch:
		return true
	default:
		return false
	}
}

func newRunner(progs [][]callT) *runner {
	r := &runner{progs: progs}
	r.wg = gsync.NewSelectableWaitGroup()
	n := len(progs)
	r.callIdx = make([]int, n)
	r.inCall = make([]bool, n)
	r.inSteps = make([]int, n)
	r.solo = make([]int, n)
	r.stuck = make([]bool, n)
	calls := make([][]vsched.Call, n)
	for t, p := range progs {
		for _, c := range p {
			c := c
			switch c.K {
			case "add":
				calls[t] = append(calls[t], func() any { return r.wg.Add(c.D) })
			default:
				calls[t] = append(calls[t], func() any { return r.wg.Wait() })
			}
		}
	}
	r.s = vsched.New(calls)
	hook.Store(r.s)
	return r
}

func (r *runner) close() {
	r.s.Close()
	hook.Store(nil)
}

func (r *runner) allowed() []int {
	var out []int
	for t := range r.progs {
		if r.s.Finished(t) || r.stuck[t] {
			continue
		}
		if !r.inCall[t] {
			c := r.progs[t][r.callIdx[t]]
			if c.K == "add" && c.D < 0 && r.lb+c.D < 0 {
				continue
			}
		}
		out = append(out, t)
	}
	return out
}

func (r *runner) stepThread(t int) {
	res := r.s.Step(t)
	it := itemT{Tid: t, Ev: "tau", Site: res.Site}
	if res.Stutter {
		it.Ev = "stutter"
	}
	if len(res.Events) > 1 {
		panic(fmt.Sprintf("thread %d produced %d events in one step", t, len(res.Events)))
	}
	for _, e := range res.Events {
		c := r.progs[t][e.Index]
		cc := c
		it.Call = &cc
		if !e.Ret {
			it.Ev = "call"
			r.inCall[t] = true
			r.inSteps[t] = 0
			if c.K == "add" {
				r.addsIn++
				r.sum += c.D
				if c.D < 0 {
					r.lb += c.D
				}
			}
		} else {
			it.Ev = "ret"
			r.inCall[t] = false
			r.callIdx[t] = e.Index + 1
			if c.K == "add" {
				r.addsIn--
				if c.D > 0 {
					r.lb += c.D
				}
			}
			switch {
			case e.Panic:
				it.Panic = true
			case c.K == "add":
				it.Val = e.Val.(int)
			default:
				it.Val = chanIndex(r, e.Val.(<-chan struct{}))
			}
		}
	}
	if it.Ev == "tau" {
		r.inSteps[t]++
	}
	for u := range r.solo {
		if u != t {
			r.solo[u] = 0
		}
	}
	r.solo[t]++
	// a thread that made soloBudget steps in a row inside one call without returning is parked
	// (a spinning Wait, or a goroutine spinning on a lock held by a parked goroutine); it becomes
	// schedulable again as soon as another thread has moved, until its call has used totalBudget
	// steps
	for u := range r.stuck {
		r.stuck[u] = r.inCall[u] && (r.inSteps[u] >= totalBudget ||
			(r.solo[u] >= soloBudget && r.inSteps[u] >= soloBudget))
	}
	it.Count = r.wg.Count()
	it.Closed = []int{}
	for i, ch := range r.chans {
		if isClosed(ch) {
			it.Closed = append(it.Closed, i)
		}
	}
	r.obs = append(r.obs, it)
	r.sched = append(r.sched, t)
}

// probeTimeout calls the real WaitTimeout(5ms) under a watchdog.  When the sum of deltas is 0
// the expected answer is nil; Go's select may still pick the timer case if this goroutine was
// descheduled for more than 5ms between NewTimer and select (loaded machine), so a timeout
// answer is re-tried up to three times in that situation: a wait group that really hands out an
// open channel at count 0 times out every time.
func (r *runner) probeTimeout() int {
	if r.addsIn != 0 {
		return 3
	}
	attempts := 1
	if r.sum == 0 {
		attempts = 4
	}
	v := 1
	for i := 0; i < attempts && v == 1; i++ {
		v = r.probeOnce()
	}
	return v
}

func (r *runner) probeOnce() int {
	done := make(chan int, 1)
	r.s.ProbeAbort.Store(false)
	go func() {
		defer func() {
			if x := recover(); x != nil {
				done <- 2
			}
		}()
		err := r.wg.WaitTimeout(5 * time.Millisecond)
		if err == nil {
			done <- 0
		} else {
			done <- 1
		}
	}()
	select {
	case v := <-done:
		return v
	case <-time.After(400 * time.Millisecond):
		r.s.ProbeAbort.Store(true)
		select {
		case <-done:
		case <-time.After(5 * time.Second):
		}
		return 2
	}
}

// run executes one case.  The last thread of progs is the probe thread (a single fresh Wait):
// it only moves when no other thread can.
func runCase(kind, name string, progs [][]callT, ch chooser, probeTmo bool) caseT {
	r := newRunner(progs)
	defer r.close()
	last, probe := -1, len(progs)-1
	for step := 0; step < 400; step++ {
		al := r.allowed()
		var main []int
		for _, t := range al {
			if t != probe {
				main = append(main, t)
			}
		}
		var t int
		if len(main) > 0 {
			lastEnabled := false
			for _, u := range main {
				if u == last {
					lastEnabled = true
				}
			}
			t = ch.next(step, last, lastEnabled, main)
			if t < 0 {
				// the prescribed schedule is exhausted: drain the remaining threads one by one
				t = main[0]
				for _, u := range main {
					if u == last {
						t = u
					}
				}
			}
			if lastEnabled && t != last {
				r.pre++
			}
		} else if len(al) > 0 {
			t = probe
		} else {
			break
		}
		r.stepThread(t)
		last = t
	}
	c := caseT{Kind: kind, Name: name, Progs: progs, Sched: r.sched, Obs: r.obs, Tmo: 3, Pre: r.pre}
	if probeTmo {
		c.Tmo = r.probeTimeout()
	}
	return c
}

// ---------------------------------------------------------------- choosers

type fixedChooser struct{ sched []int }

func (f *fixedChooser) next(step, last int, le bool, allowed []int) int {
	for len(f.sched) > 0 {
		t := f.sched[0]
		f.sched = f.sched[1:]
		for _, a := range allowed {
			if a == t {
				return t
			}
		}
		// a prescribed thread that cannot move (finished/gated) is skipped
	}
	return -1
}

type randChooser struct {
	r     *rand.Rand
	stick float64
}

func (c *randChooser) next(step, last int, le bool, allowed []int) int {
	if le && c.r.Float64() < c.stick {
		return last
	}
	return allowed[c.r.IntN(len(allowed))]
}

// dfsChooser enumerates schedules: stack of (options, chosen index); pre = preemption budget
// (negative = unbounded).
type dfsChooser struct {
	pre    int
	stack  []choice
	depth  int
	budget int
}
type choice struct {
	opts []int
	idx  int
}

func (d *dfsChooser) begin() { d.depth = 0; d.budget = d.pre }

func (d *dfsChooser) next(step, last int, le bool, allowed []int) int {
	var opts []int
	if le {
		opts = append(opts, last)
		if d.pre < 0 || d.budget > 0 {
			for _, a := range allowed {
				if a != last {
					opts = append(opts, a)
				}
			}
		}
	} else {
		opts = append(opts, allowed...)
	}
	if d.depth == len(d.stack) {
		d.stack = append(d.stack, choice{opts: opts})
	}
	c := d.stack[d.depth]
	d.depth++
	if c.idx >= len(opts) {
		c.idx = 0 // cannot happen for a deterministic program
	}
	t := opts[c.idx]
	if le && t != last {
		d.budget--
	}
	return t
}

// advance moves to the next schedule; false when the enumeration is complete
func (d *dfsChooser) advance() bool {
	d.stack = d.stack[:d.depth]
	for len(d.stack) > 0 {
		top := &d.stack[len(d.stack)-1]
		if top.idx+1 < len(top.opts) {
			top.idx++
			return true
		}
		d.stack = d.stack[:len(d.stack)-1]
	}
	return false
}

// ---------------------------------------------------------------- programs

func add(d int) callT { return callT{K: "add", D: d} }

var wait = callT{K: "wait"}

type namedProg struct {
	name  string
	progs [][]callT
}

// the catalogue: 2-4 goroutines, 1-4 calls each, decrements after matching increments
// (cross-thread decrements are gated by the scheduler until the increment has returned)
var catalogue = []namedProg{
	{"inc|inc-dec|wait", [][]callT{{add(1)}, {add(1), add(-1)}, {wait}}},
	{"inc|inc-dec-inc|wait", [][]callT{{add(1)}, {add(1), add(-1), add(1)}, {wait}}},
	{"inc-dec|inc", [][]callT{{add(1), add(-1)}, {add(1)}}},
	{"inc-dec|inc-dec", [][]callT{{add(1), add(-1)}, {add(1), add(-1)}}},
	{"inc-dec|wait-wait", [][]callT{{add(1), add(-1)}, {wait, wait}}},
	{"inc-dec|inc-dec|wait", [][]callT{{add(1), add(-1)}, {add(1), add(-1)}, {wait}}},
	{"add2|dec|dec|wait", [][]callT{{add(2)}, {add(-1)}, {add(-1)}, {wait}}},
	{"add2-dec2|inc-wait-dec", [][]callT{{add(2), add(-2)}, {add(1), wait, add(-1)}}},
	{"inc-wait-dec-wait|inc-dec", [][]callT{{add(1), wait, add(-1), wait}, {add(1), add(-1)}}},
	{"inc-dec-inc-dec|wait|wait", [][]callT{{add(1), add(-1), add(1), add(-1)}, {wait}, {wait}}},
	{"inc|dec|inc|dec", [][]callT{{add(1)}, {add(-1)}, {add(1)}, {add(-1)}}},
	{"inc-inc|dec-wait|dec-wait", [][]callT{{add(1), add(1)}, {add(-1), wait}, {add(-1), wait}}},
	// Add(0) is an Add call like any other (wg.Add(len(batch)) with an empty batch): on an idle
	// group, between an Inc and its Dec, and after the group returned to zero
	{"add0|wait", [][]callT{{add(0)}, {wait}}},
	{"add0-inc-add0-dec|wait-add0", [][]callT{{add(0), add(1), add(0), add(-1)}, {wait, add(0)}}},
	{"inc-dec|add0-wait", [][]callT{{add(1), add(-1)}, {add(0), wait}}},
	// increments by more than one from zero, a decrement by more than one reaching exactly zero
	{"add3-dec-dec2|wait", [][]callT{{add(3), add(-1), add(-2)}, {wait}}},
	{"add3|dec3-wait", [][]callT{{add(3)}, {add(-3), wait}}},
}

type corpusEntry struct {
	name  string
	progs [][]callT
	sched []int
}

// DESIGN section 5 witnesses (found by WGSearch on the model of the pinned code)
var corpus = []corpusEntry{
	{"C01-early-release", [][]callT{{add(1)}, {add(1), add(-1)}, {wait}},
		[]int{0, 1, 1, 1, 1, 1, 0, 0, 0, 2, 2, 2, 1, 1}},
	{"C01-early-release-3calls", [][]callT{{add(1)}, {add(1), add(-1), add(1)}, {wait}},
		[]int{0, 1, 1, 1, 1, 1, 0, 0, 0, 2, 2, 2, 1, 1}},
	{"C02-count1-with-sentinel", [][]callT{{add(1), add(-1)}, {add(1)}, {wait}},
		[]int{0, 0, 0, 0, 0, 1, 1, 1, 0, 0, 1, 2, 2, 2, 2, 2}},
	{"sequential", [][]callT{{add(1), wait, add(-1), wait}}, nil},
	{"add0-idle", [][]callT{{add(0)}}, nil},
	{"add0-idle-then-cycle", [][]callT{{add(0), wait, add(1), add(-1)}}, nil},
	{"add0-inside-and-after-cycle", [][]callT{{add(1), add(0), wait, add(-1), add(0), wait}}, nil},
	{"add3-dec3", [][]callT{{add(3), wait, add(-3)}}, nil},
	{"add2-dec-dec", [][]callT{{add(2), add(-1), add(-1)}, {wait}}, []int{0, 0, 1, 1, 0, 0, 0, 0}},
}

func withProbe(p [][]callT) [][]callT {
	out := make([][]callT, 0, len(p)+1)
	out = append(out, p...)
	return append(out, []callT{wait})
}

func randProg(r *rand.Rand) [][]callT {
	n := 2 + r.IntN(3)
	p := make([][]callT, n)
	for t := 0; t < n; t++ {
		k := 1 + r.IntN(4)
		bal := 0
		for i := 0; i < k; i++ {
			switch x := r.IntN(11); {
			case x == 10:
				p[t] = append(p[t], add(0))
			case x < 4:
				d := 1 + r.IntN(3)
				p[t] = append(p[t], add(d))
				bal += d
			case x < 7:
				// a decrement: mostly of this thread's own balance, sometimes of another thread's
				d := 1
				if bal >= 2 && r.IntN(2) == 0 {
					d = bal // a decrement by more than one reaching exactly this thread's zero
				}
				p[t] = append(p[t], add(-d))
				bal -= d
			default:
				p[t] = append(p[t], wait)
			}
		}
	}
	// total must not be negative, otherwise some decrement can never be issued
	tot := 0
	for _, th := range p {
		for _, c := range th {
			tot += c.D
		}
	}
	if tot < 0 {
		p[0] = append([]callT{add(-tot)}, p[0]...)
		if len(p[0]) > 4 {
			p[0] = p[0][:4]
		}
	}
	return p
}

// ---------------------------------------------------------------- output

// gZ renders an integer for an argument position whose scope is Z (no %Z delimiter: the
// case terms are large and every notation node costs elaboration time).
func gZ(v int) string {
	if v < 0 {
		return fmt.Sprintf("(%d)", v)
	}
	return fmt.Sprint(v)
}

func gCall(c callT) string {
	if c.K == "add" {
		return "CAdd " + gZ(c.D)
	}
	return "CWait"
}

func gItem(it itemT) string {
	var ev string
	switch it.Ev {
	case "call":
		ev = "(ECall (" + gCall(*it.Call) + "))"
	case "ret":
		switch {
		case it.Panic:
			ev = "(ERet (" + gCall(*it.Call) + ") RPanic)"
		case it.Call.K == "add":
			ev = "(ERet (" + gCall(*it.Call) + ") (RInt " + gZ(it.Val) + "))"
		default:
			ev = fmt.Sprintf("(ERet CWait (RChan %d))", it.Val)
		}
	case "tau":
		ev = "ETau"
	default:
		ev = "EStutter"
	}
	return fmt.Sprintf("ti %d %s %s %s %d", it.Tid, ev, gZ(it.Count),
		gal.ListOf(it.Closed, func(i int) string { return fmt.Sprint(i) }), it.Site)
}

func gCase(c caseT) string {
	progs := gal.ListOf(c.Progs, func(p []callT) string { return gal.ListOf(p, gCall) })
	sched := gal.ListOf(c.Sched, func(i int) string { return fmt.Sprint(i) })
	return "WGCase " + progs + " " + sched + " " + gal.ListOf(c.Obs, gItem) + " " + fmt.Sprint(c.Tmo)
}

// encCase packs a case into 60-bit words of five 12-bit fields (signed values offset by 2048):
//
//	nthreads, then per thread: ncalls, then per call: kind (0 add, 1 wait), delta
//	tmo, nsteps, then per step: tid, event (0 call, 1 ret, 2 tau, 3 stutter, 4 ret-panic),
//	call kind, call delta, value, Count(), site, nclosed, closed...
//
// WGJudge.decode_case reads it back.  Elaborating such a literal costs a few ms per case, the
// readable constructor form cost 20-35 ms.
func encCase(c caseT) string {
	var f []int
	sgn := func(v int) int { return v + 2048 }
	f = append(f, len(c.Progs))
	for _, p := range c.Progs {
		f = append(f, len(p))
		for _, cl := range p {
			k := 0
			if cl.K != "add" {
				k = 1
			}
			f = append(f, k, sgn(cl.D))
		}
	}
	f = append(f, c.Tmo, len(c.Obs))
	for _, it := range c.Obs {
		ev := map[string]int{"call": 0, "ret": 1, "tau": 2, "stutter": 3}[it.Ev]
		if it.Panic {
			ev = 4
		}
		k, d := 0, 0
		if it.Call != nil {
			if it.Call.K != "add" {
				k = 1
			}
			d = it.Call.D
		}
		f = append(f, it.Tid, ev, k, sgn(d), sgn(it.Val), sgn(it.Count), it.Site, len(it.Closed))
		f = append(f, it.Closed...)
	}
	for _, v := range f {
		if v < 0 || v > 4095 {
			panic(fmt.Sprintf("field %d does not fit 12 bits", v))
		}
	}
	var words []string
	for i := 0; i < len(f); i += 5 {
		var w uint64
		for k := 0; k < 5 && i+k < len(f); k++ {
			w |= uint64(f[i+k]) << (12 * uint(k))
		}
		words = append(words, fmt.Sprint(w))
	}
	// the scope delimiter makes the numerals primitive integers wherever the term is used
	return "[" + strings.Join(words, ";") + "]%uint63"
}

var readable = false

type emitter struct {
	out  *gal.Out
	seen map[string]bool
	dup  int
}

func (e *emitter) emit(c caseT) {
	if e.seen != nil {
		key := fmt.Sprint(c.Progs, c.Sched)
		if e.seen[key] {
			e.dup++
			return
		}
		e.seen[key] = true
	}
	if readable {
		e.out.Case(gCase(c), c)
	} else {
		e.out.Case(encCase(c), c)
	}
}

// ---------------------------------------------------------------- free-running stress

// stress runs catalogue programs with the Go scheduler in charge (no baton).  Every call and
// return is appended to one log under a mutex - the call entry before the call starts, the
// return entry after it has returned - and an observer keeps appending which of the channels
// handed out so far it has seen closed (checked BEFORE the entry is appended).  The log order
// is therefore a linearisation in which increments count later and decrements earlier than in
// real time and observations come later: judging it with c01_ok (lower bound = returned
// increments + called decrements) can only miss violations, never invent one.  At the end of
// each run the at-rest clauses of C02 are checked directly.  With -race the race detector
// watches the code as well.
type stressLog struct {
	mu     sync.Mutex
	items  []itemT
	chans  []<-chan struct{}
	closed map[int]bool
}

func (l *stressLog) closedList() []int {
	out := []int{}
	for i := range l.chans {
		if l.closed[i] {
			out = append(out, i)
		}
	}
	return out
}

func (l *stressLog) event(tid int, ev string, c callT, val int, ch <-chan struct{}) {
	l.mu.Lock()
	defer l.mu.Unlock()
	cc := c
	it := itemT{Tid: tid, Ev: ev, Call: &cc, Val: val}
	if ch != nil {
		idx := -1
		for i, k := range l.chans {
			if k == ch {
				idx = i
			}
		}
		if idx < 0 {
			l.chans = append(l.chans, ch)
			idx = len(l.chans) - 1
		}
		it.Val = idx
	}
	it.Closed = l.closedList()
	l.items = append(l.items, it)
}

func (l *stressLog) observe(tid int) {
	l.mu.Lock()
	cs := append([]<-chan struct{}{}, l.chans...)
	l.mu.Unlock()
	seen := map[int]bool{}
	for i, ch := range cs {
		if isClosed(ch) {
			seen[i] = true
		}
	}
	l.mu.Lock()
	defer l.mu.Unlock()
	changed := false
	for i := range seen {
		if !l.closed[i] {
			l.closed[i] = true
			changed = true
		}
	}
	if changed || len(l.items) == 0 || l.items[len(l.items)-1].Ev != "stutter" {
		l.items = append(l.items, itemT{Tid: tid, Ev: "stutter", Closed: l.closedList()})
	}
}

type stressBad struct {
	Program string    `json:"program"`
	Progs   [][]callT `json:"progs"`
	What    string    `json:"what"`
}

func stress(seed uint64, iters int, secs float64, em *emitter, maxTraces int) int {
	r := gal.NewRand(seed)
	var ctr atomic.Uint64
	gsync.VerifYield = func(site int) {
		if ctr.Add(1)%5 == 0 {
			runtime.Gosched()
		}
	}
	bad := 0
	report := func(np namedProg, what string) {
		b, _ := json.Marshal(stressBad{np.name, np.progs, what})
		fmt.Printf("STRESS-BAD %s\n", b)
		bad++
	}
	deadline := time.Now().Add(time.Duration(secs * float64(time.Second)))
	it := 0
	for ; (secs > 0 && time.Now().Before(deadline)) || (secs <= 0 && it < iters); it++ {
		np := catalogue[r.IntN(len(catalogue))]
		wg := gsync.NewSelectableWaitGroup()
		lg := &stressLog{closed: map[int]bool{}}
		obsTid := len(np.progs)
		// cross-thread decrements need their increments first: a semaphore of returned increments
		sem := make(chan struct{}, 64)
		var done sync.WaitGroup
		sum := 0
		for _, th := range np.progs {
			for _, c := range th {
				sum += c.D
			}
		}
		start := make(chan struct{})
		for t, th := range np.progs {
			t, th := t, th
			done.Add(1)
			go func() {
				defer done.Done()
				<-start
				for _, c := range th {
					switch {
					case c.K == "wait":
						lg.event(t, "call", c, 0, nil)
						ch := wg.Wait()
						lg.event(t, "ret", c, 0, ch)
						lg.observe(obsTid)
					case c.D >= 0:
						lg.event(t, "call", c, 0, nil)
						v := wg.Add(c.D)
						lg.event(t, "ret", c, v, nil)
						for i := 0; i < c.D; i++ {
							sem <- struct{}{}
						}
					default:
						for i := 0; i < -c.D; i++ {
							<-sem
						}
						lg.event(t, "call", c, 0, nil)
						v := wg.Add(c.D)
						lg.event(t, "ret", c, v, nil)
					}
				}
			}()
		}
		fin := make(chan struct{})
		go func() { done.Wait(); close(fin) }()
		close(start)
		hung := false
	poll:
		for {
			select {
			case <-fin:
				break poll
			case <-time.After(5 * time.Second):
				hung = true
				break poll
			default:
				lg.observe(obsTid)
				runtime.Gosched()
			}
		}
		if hung {
			report(np, "goroutines did not finish (a Wait call spins)")
			continue
		}
		lg.observe(obsTid)
		if wg.Count() != sum {
			report(np, fmt.Sprintf("at rest Count()=%d but the sum of deltas is %d", wg.Count(), sum))
		}
		if sum == 0 {
			lg.mu.Lock()
			open := -1
			for i, ch := range lg.chans {
				if !isClosed(ch) {
					open = i
				}
			}
			lg.mu.Unlock()
			if open >= 0 {
				report(np, fmt.Sprintf("count 0 at rest but handed-out channel #%d is open", open))
			}
			if wg.WaitTimeout(time.Second) != nil {
				report(np, "WaitTimeout(1s) returned an error at count 0")
			}
		} else {
			res := make(chan bool, 1)
			go func() { res <- isClosed(wg.Wait()) }()
			select {
			case cl := <-res:
				if cl {
					report(np, fmt.Sprintf("count %d at rest but Wait() returned a closed channel", sum))
				}
			case <-time.After(2 * time.Second):
				report(np, fmt.Sprintf("Wait() does not return at rest (count %d)", sum))
			}
		}
		if em != nil && em.out.N < maxTraces {
			progs := append(append([][]callT{}, np.progs...), []callT{})
			sched := make([]int, len(lg.items))
			for i, x := range lg.items {
				sched[i] = x.Tid
			}
			em.emit(caseT{Kind: "stress", Name: np.name, Progs: progs, Sched: sched, Obs: lg.items, Tmo: 3})
		}
	}
	fmt.Printf("STRESS iterations=%d bad=%d\n", it, bad)
	return bad
}

// ---------------------------------------------------------------- main

func main() {
	seed := flag.Uint64("seed", 1, "seed")
	outp := flag.String("out", "", "output prefix")
	mode := flag.String("mode", "corpus", "corpus|random|pb|exhaustive|randprog|replay|stress")
	n := flag.Int("n", 100, "schedules per program (random), programs (randprog), iterations (stress)")
	pre := flag.Int("pre", 2, "preemption bound (pb)")
	only := flag.String("progs", "", "comma separated catalogue indices (default all)")
	maxCases := flag.Int("max", 200000, "stop enumerating after this many cases per program")
	tmoEvery := flag.Int("tmoevery", 1, "probe WaitTimeout on every k-th case (0 = never)")
	file := flag.String("file", "", "replay: JSON file with progs and sched")
	secs := flag.Float64("secs", 0, "stress: run for this many seconds (0 = -n iterations)")
	flag.BoolVar(&readable, "readable", false, "write the cases as readable WGCase terms instead of packed words")
	flag.Parse()
	if *mode == "stress" {
		var em *emitter
		if *outp != "" {
			em = &emitter{out: gal.NewOut(*outp)}
		}
		nbad := stress(*seed, *n, *secs, em, *maxCases)
		if em != nil {
			em.out.Close()
		}
		if nbad > 0 && *outp == "" {
			os.Exit(1)
		}
		return
	}
	r := gal.NewRand(*seed)
	em := &emitter{out: gal.NewOut(*outp), seen: map[string]bool{}}
	defer em.out.Close()
	ncase := 0
	probe := func() bool {
		ncase++
		return *tmoEvery > 0 && ncase%*tmoEvery == 0
	}
	var sel []namedProg
	if *only == "" {
		sel = catalogue
	} else {
		for _, s := range strings.Split(*only, ",") {
			var i int
			fmt.Sscan(s, &i)
			if i >= 0 && i < len(catalogue) {
				sel = append(sel, catalogue[i])
			}
		}
	}
	switch *mode {
	case "corpus":
		for _, c := range corpus {
			em.emit(runCase("corpus", c.name, withProbe(c.progs), &fixedChooser{sched: append([]int{}, c.sched...)}, true))
		}
	case "replay":
		type repT struct {
			Progs [][]callT `json:"progs"`
			Sched []int     `json:"sched"`
		}
		var rep struct {
			repT
			Batch []repT `json:"batch"`
		}
		b, err := os.ReadFile(*file)
		if err == nil {
			err = json.Unmarshal(b, &rep)
		}
		if err != nil {
			fmt.Fprintln(os.Stderr, err)
			os.Exit(2)
		}
		// the recorded programs already contain the probe thread; duplicates are kept so that
		// the output stays index-aligned with the batch
		em.seen = nil
		if len(rep.Batch) == 0 {
			rep.Batch = []repT{rep.repT}
		}
		for _, one := range rep.Batch {
			em.emit(runCase("replay", "replay", one.Progs, &fixedChooser{sched: append([]int{}, one.Sched...)}, true))
		}
	case "random":
		for _, np := range sel {
			for i := 0; i < *n; i++ {
				st := []float64{0, 0.5, 0.8, 0.9}[i%4]
				em.emit(runCase("random", np.name, withProbe(np.progs), &randChooser{r, st}, probe()))
			}
		}
	case "randprog":
		for i := 0; i < *n; i++ {
			p := randProg(r)
			for k := 0; k < 3; k++ {
				st := []float64{0.3, 0.7, 0.9}[k]
				em.emit(runCase("randprog", "random-program", withProbe(p), &randChooser{r, st}, probe()))
			}
		}
	case "pb", "exhaustive":
		for _, np := range sel {
			d := &dfsChooser{pre: *pre}
			if *mode == "exhaustive" {
				d.pre = -1
			}
			cnt, steps := 0, 0
			for {
				d.begin()
				cs := runCase(*mode, np.name, withProbe(np.progs), d, probe())
				steps += len(cs.Obs)
				em.emit(cs)
				cnt++
				if !d.advance() || cnt >= *maxCases {
					break
				}
			}
			fmt.Printf("ENUM program=%q mode=%s pre=%d threads=%d schedules=%d steps=%d complete=%v\n",
				np.name, *mode, d.pre, len(np.progs), cnt, steps, cnt < *maxCases)
		}
	}
	fmt.Printf("CASES %d (duplicates dropped: %d)\n", em.out.N, em.dup)
}
