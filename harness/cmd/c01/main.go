//go:build wginstr

// c01 — schedule replay of the real gsync.SelectableWaitGroup (properties C01 and C02).
//
// The scratch copy of gsync/selectable_wait_group.go has been rewritten by xlate_conc: a call
// verifYield(site) sits before every shared-memory operation.  This harness runs client
// programs (2-4 goroutines, each a short list of Add(+n) / Add(-n) / Wait) on a fresh wait
// group under the baton-passing scheduler gtverif/internal/vsched: exactly one goroutine runs
// between two yields, chosen by the schedule.  After every step it records the event of the
// step (call / return with value / internal), Count(), the closed-ness of every channel handed
// out so far (non-blocking select) and the site the thread is parked at.  After the schedule a
// WaitTimeout(5ms) probe runs under a watchdog.  Every case is written as a Gallina term of
// type WGJudge.wg_case and as JSON.
//
//	c01 -seed N -out PREFIX -mode corpus|random|pb|exhaustive|starve|randprog|replay|stress [...]
package main

import (
	"context"
	"encoding/json"
	"flag"
	"fmt"
	"math/rand/v2"
	"os"
	"runtime"
	"strings"
	"sync"
	"sync/atomic"
	"time"

	"github.com/drshriveer/gtools/gsync"

	"gtverif/internal/gal"
	"gtverif/internal/vsched"
)

type callT struct {
	K string `json:"k"` // "add" | "wait"
	D int    `json:"d"`
	// Via: "inc" / "dec" make the call through wg.Inc() / wg.Dec() (delta +1 / -1); the recorded
	// event is the Add(+1) / Add(-1) they are documented to be
	Via string `json:"via,omitempty"`
}

// probeT is the answer of WaitTimeout / WaitCTX(expired context) called by the controller right
// after step Pos, at a point where no Add is in flight: Code = 4*wt + wc with
// wt: 0 nil, 1 ErrWGTimeout, 2 hung, 3 not called; wc: 0 nil, 1 the context's error, 2 hung, 3 not called
type probeT struct {
	Pos  int `json:"pos"`
	Code int `json:"code"`
}

type itemT struct {
	Tid    int    `json:"tid"`
	Ev     string `json:"ev"` // call | ret | tau | stutter
	Call   *callT `json:"call,omitempty"`
	Val    int    `json:"val"` // Add: returned count; Wait: hand-out index of the channel
	Panic  bool   `json:"panic,omitempty"`
	Count  int    `json:"count"`
	Closed []int  `json:"closed"`
	Site   int    `json:"site"`
}

type caseT struct {
	Kind  string    `json:"kind"`
	Name  string    `json:"name"`
	Progs [][]callT `json:"progs"`
	Sched []int     `json:"sched"`
	Obs   []itemT   `json:"obs"`
	Tmo   int       `json:"tmo"` // 0 nil, 1 ErrWGTimeout, 2 hung, 3 not probed
	Pre   int       `json:"preemptions"`
	// Probes: WaitTimeout / WaitCTX called at rest points in the middle of the schedule and at its end
	Probes []probeT `json:"probes,omitempty"`
}

const (
	soloBudget  = 8  // consecutive steps a thread may take inside one call before it is parked for good
	totalBudget = 200 // steps inside one call (a call may be long: a striped counter sums 64 cells)
)

var hook atomic.Pointer[vsched.Sched]

// allowNeg: decrements are scheduled even when the conservative lower bound would go negative.
var allowNeg bool

func init() {
	gsync.VerifYield = func(site int) {
		if s := hook.Load(); s != nil {
			s.Yield(site)
		}
	}
}

// chooser decides the next thread.  allowed = threads that may move (not finished, not stuck,
// next call keeps the lower bound non-negative), in increasing order.
type chooser interface {
	next(step int, last int, lastEnabled bool, allowed []int) int // -1 = stop
}

type runner struct {
	progs   [][]callT
	s       *vsched.Sched
	wg      *gsync.SelectableWaitGroup
	chans   []<-chan struct{}
	obs     []itemT
	sched   []int
	lb      int
	callIdx []int // index of the call the thread is in / will make next
	inCall  []bool
	inSteps []int // steps inside the current call
	solo    []int // consecutive steps of this thread
	stuck   []bool
	site    []int // site the thread is parked at (0 = between calls / finished)
	lastCount int
	addsIn  int
	sum     int // sum of the deltas of all Add calls made so far
	pre     int
}

func chanIndex(r *runner, ch <-chan struct{}) int {
	for i, c := range r.chans {
		if c == ch {
			return i
		}
	}
	r.chans = append(r.chans, ch)
	return len(r.chans) - 1
}

func isClosed(ch <-chan struct{}) bool {
	select {
	case <-ch:
		return true
	default:
		return false
	}
}

func newRunner(progs [][]callT) *runner {
	r := &runner{progs: progs}
	r.wg = gsync.NewSelectableWaitGroup()
	n := len(progs)
	r.callIdx = make([]int, n)
	r.inCall = make([]bool, n)
	r.inSteps = make([]int, n)
	r.solo = make([]int, n)
	r.stuck = make([]bool, n)
	r.site = make([]int, n)
	calls := make([][]vsched.Call, n)
	for t, p := range progs {
		for _, c := range p {
			c := c
			switch c.K {
			case "add":
				switch {
				case c.Via == "inc" && c.D == 1:
					calls[t] = append(calls[t], func() any { return r.wg.Inc() })
				case c.Via == "dec" && c.D == -1:
					calls[t] = append(calls[t], func() any { return r.wg.Dec() })
				default:
					calls[t] = append(calls[t], func() any { return r.wg.Add(c.D) })
				}
			default:
				calls[t] = append(calls[t], func() any { return r.wg.Wait() })
			}
		}
	}
	r.s = vsched.New(calls)
	hook.Store(r.s)
	return r
}

func (r *runner) close() {
	r.s.Close()
	hook.Store(nil)
}

func (r *runner) allowed() []int {
	var out []int
	for t := range r.progs {
		if r.s.Finished(t) || r.stuck[t] {
			continue
		}
		if !r.inCall[t] {
			c := r.progs[t][r.callIdx[t]]
			if !allowNeg && c.K == "add" && c.D < 0 && r.lb+c.D < 0 {
				continue
			}
		}
		out = append(out, t)
	}
	return out
}

// unstick: nobody can move, but a thread is only parked because it ran alone for soloBudget steps
// (not because its call used up totalBudget): it is the only one who can make progress, let it.
// Without this a long call (more than soloBudget shared-memory operations) never completed once
// the other goroutines had finished, and the monitors held vacuously on the prefix.
func (r *runner) unstick() bool {
	any := false
	for u := range r.stuck {
		if r.stuck[u] && r.inCall[u] && r.inSteps[u] < totalBudget && !r.s.Finished(u) {
			r.stuck[u] = false
			r.solo[u] = 0
			any = true
		}
	}
	return any
}

func (r *runner) stepThread(t int) {
	res := r.s.Step(t)
	r.site[t] = res.Site
	if len(res.Events) > 1 {
		// a call that made no yield at all (no shared-memory operation the instrumenter knows of:
		// a wrapper answering from a field of its own, ..): its call and its return happened in
		// one scheduler step; they are recorded as two items of the same thread.  The model has
		// no such call, so a structural comparison reports the difference.
		for _, e := range res.Events {
			r.record(t, res.Site, false, []vsched.Event{e})
		}
		return
	}
	r.record(t, res.Site, res.Stutter, res.Events)
}

func (r *runner) record(t int, site int, stutter bool, events []vsched.Event) {
	it := itemT{Tid: t, Ev: "tau", Site: site}
	if stutter {
		it.Ev = "stutter"
	}
	for _, e := range events {
		c := r.progs[t][e.Index]
		cc := c
		it.Call = &cc
		if !e.Ret {
			it.Ev = "call"
			r.inCall[t] = true
			r.inSteps[t] = 0
			if c.K == "add" {
				r.addsIn++
				r.sum += c.D
				if c.D < 0 {
					r.lb += c.D
				}
			}
		} else {
			it.Ev = "ret"
			r.inCall[t] = false
			r.callIdx[t] = e.Index + 1
			if c.K == "add" {
				r.addsIn--
				if c.D > 0 {
					r.lb += c.D
				}
			}
			switch {
			case e.Panic:
				it.Panic = true
			case c.K == "add":
				it.Val = e.Val.(int)
			default:
				it.Val = chanIndex(r, e.Val.(<-chan struct{}))
			}
		}
	}
	if r.inCall[t] && site != 0 {
		it.Site = canonSite(r.progs[t][r.callIdx[t]], site)
	}
	if !r.inCall[t] {
		it.Site = 0
	}
	if it.Ev == "tau" {
		r.inSteps[t]++
	}
	for u := range r.solo {
		if u != t {
			r.solo[u] = 0
		}
	}
	r.solo[t]++
	// a thread that made soloBudget steps in a row inside one call without returning is parked
	// (a spinning Wait, or a goroutine spinning on a lock held by a parked goroutine); it becomes
	// schedulable again as soon as another thread has moved, until its call has used totalBudget
	// steps
	for u := range r.stuck {
		r.stuck[u] = r.inCall[u] && (r.inSteps[u] >= totalBudget ||
			(r.solo[u] >= soloBudget && r.inSteps[u] >= soloBudget))
	}
	// closed-ness first (a non-blocking receive has no effect on the group), then Count().
	// Count() is a call of the API: in the modelled code it is one load (part of the proved
	// check-list), but in a source whose tie is broken it may DO something (seeded/C02-32: every
	// operation flushes a mailbox of channels to close - an observer calling Count() after every
	// step repaired the state before the defect could show).  With -sparseobs Count() is only
	// called where the property speaks about it: when no Add is in flight; elsewhere the item
	// carries the last value seen.
	it.Closed = []int{}
	for i, ch := range r.chans {
		if isClosed(ch) {
			it.Closed = append(it.Closed, i)
		}
	}
	if !sparseObs || r.addsIn == 0 {
		r.lastCount = r.wg.Count()
	}
	it.Count = r.lastCount
	r.obs = append(r.obs, it)
	r.sched = append(r.sched, t)
}

// probeTimeout calls the real WaitTimeout(5ms) under a watchdog.  When the sum of deltas is 0
// the expected answer is nil; Go's select may still pick the timer case if this goroutine was
// descheduled for more than 5ms between NewTimer and select (loaded machine), so a timeout
// answer is re-tried up to three times in that situation: a wait group that really hands out an
// open channel at count 0 times out every time.
// every hung probe costs about a second of watchdog time: after a few of them (each one is a
// failing input already) the process stops probing
var hungProbes int

const maxHungProbes = 3

func (r *runner) probeTimeout() int {
	if r.addsIn != 0 || hungProbes >= maxHungProbes {
		return 3
	}
	attempts := 1
	if r.sum == 0 {
		attempts = 4
	}
	v := 1
	for i := 0; i < attempts && v == 1; i++ {
		v = r.probeOnce()
	}
	return v
}

// watchdog waits for a probe.  A probe that has not answered after 400 ms is hung if it is
// SPINNING (it keeps making yields: the pinned Wait loop) - it is then unwound at its next yield.
// One that makes no yields is either blocked for good or this process is starved of CPU (the 5 ms
// timer of a WaitTimeout has been seen to take longer than 400 ms on a machine with a load of 150):
// it gets 3 more seconds before it is declared hung and abandoned.
func (r *runner) watchdog(done chan int) int {
	y0 := r.s.ProbeYields.Load()
	select {
	case v := <-done:
		return v
	case <-time.After(400 * time.Millisecond):
	}
	if r.s.ProbeYields.Load()-y0 < 50 {
		select {
		case v := <-done:
			return v
		case <-time.After(3 * time.Second):
		}
	}
	r.s.ProbeAbort.Store(true)
	select {
	case <-done:
	case <-time.After(500 * time.Millisecond):
	}
	r.s.ProbeAbort.Store(false)
	hungProbes++
	return 2
}

// probeCtx calls the real WaitCTX with an already cancelled context under the watchdog:
// 0 nil, 1 the context's error, 2 hung.  With a positive count the only ready case of its select
// is ctx.Done(), so the answer must be the error; at count 0 both cases are ready.
func (r *runner) probeCtx() int {
	if hungProbes >= maxHungProbes {
		return 3
	}
	done := make(chan int, 1)
	r.s.ProbeAbort.Store(false)
	go func() {
		defer func() {
			if x := recover(); x != nil {
				done <- 2
			}
		}()
		// cancelled before the call; it also carries a far deadline, which must not matter
		ctx, cancel := context.WithTimeout(context.Background(), time.Hour)
		cancel()
		if err := r.wg.WaitCTX(ctx); err == nil {
			done <- 0
		} else {
			done <- 1
		}
	}()
	return r.watchdog(done)
}

// probeRest: both probes at a point where no Add is in flight
func (r *runner) probeRest() int {
	return 4*r.probeTimeout() + r.probeCtx()
}

func (r *runner) probeOnce() int {
	done := make(chan int, 1)
	r.s.ProbeAbort.Store(false)
	go func() {
		defer func() {
			if x := recover(); x != nil {
				done <- 2
			}
		}()
		err := r.wg.WaitTimeout(5 * time.Millisecond)
		if err == nil {
			done <- 0
		} else {
			done <- 1
		}
	}()
	return r.watchdog(done)
}

// run executes one case.  The last thread of progs is the probe thread (a single fresh Wait):
// it only moves when no other thread can.
func runCase(kind, name string, progs [][]callT, ch chooser, probeTmo bool) caseT {
	r := newRunner(progs)
	defer r.close()
	if b, ok := ch.(interface{ bind(*runner) }); ok {
		b.bind(r)
	}
	last, probe := -1, len(progs)-1
	var probes []probeT
	rests := 0
	for step := 0; step < 3000; step++ {
		al := r.allowed()
		if len(al) == 0 && r.unstick() {
			al = r.allowed()
		}
		var main []int
		for _, t := range al {
			if t != probe {
				main = append(main, t)
			}
		}
		var t int
		if len(main) > 0 {
			lastEnabled := false
			for _, u := range main {
				if u == last {
					lastEnabled = true
				}
			}
			t = ch.next(step, last, lastEnabled, main)
			if t < 0 {
				// the prescribed schedule is exhausted: drain the remaining threads one by one
				t = main[0]
				for _, u := range main {
					if u == last {
						t = u
					}
				}
			}
			if lastEnabled && t != last {
				r.pre++
			}
		} else if len(al) > 0 {
			t = probe
		} else {
			break
		}
		r.stepThread(t)
		last = t
		if probeTmo && r.addsIn == 0 {
			// WaitTimeout / WaitCTX in the middle of the schedule, at the 3rd and the 9th point
			// where no Add is in flight (other goroutines may be parked inside Wait there)
			rests++
			if rests == 3 || rests == 9 {
				probes = append(probes, probeT{len(r.obs) - 1, r.probeRest()})
			}
		}
	}
	c := caseT{Kind: kind, Name: name, Progs: progs, Sched: r.sched, Obs: r.obs, Tmo: 3, Pre: r.pre}
	if probeTmo {
		c.Tmo = r.probeTimeout()
		if r.addsIn == 0 && len(r.obs) > 0 {
			probes = append(probes, probeT{len(r.obs) - 1, 4*3 + r.probeCtx()})
		}
	}
	c.Probes = probes
	return c
}

// ---------------------------------------------------------------- choosers

type fixedChooser struct{ sched []int }

func (f *fixedChooser) next(step, last int, le bool, allowed []int) int {
	for len(f.sched) > 0 {
		t := f.sched[0]
		f.sched = f.sched[1:]
		for _, a := range allowed {
			if a == t {
				return t
			}
		}
		// a prescribed thread that cannot move (finished/gated) is skipped
	}
	return -1
}

type randChooser struct {
	r     *rand.Rand
	stick float64
}

func (c *randChooser) next(step, last int, le bool, allowed []int) int {
	if le && c.r.Float64() < c.stick {
		return last
	}
	return allowed[c.r.IntN(len(allowed))]
}

// dfsChooser enumerates schedules: stack of (options, chosen index); pre = preemption budget
// (negative = unbounded).
type dfsChooser struct {
	pre    int
	stack  []choice
	depth  int
	budget int
	// writeOnly: a running thread is preempted only in front of an operation that can change
	// shared memory (or between calls); preempting in front of a load instead of in front of the
	// next write gives the other threads nothing new to see
	writeOnly bool
	r         *runner
}
type choice struct {
	opts []int
	idx  int
}

func (d *dfsChooser) begin() { d.depth = 0; d.budget = d.pre }

func (d *dfsChooser) bind(r *runner) { d.r = r }

func (d *dfsChooser) next(step, last int, le bool, allowed []int) int {
	var opts []int
	if le {
		opts = append(opts, last)
		if (d.pre < 0 || d.budget > 0) && !(d.writeOnly && d.r != nil && d.r.inCall[last] && !isWriteSite(d.r.site[last])) {
			for _, a := range allowed {
				if a != last {
					opts = append(opts, a)
				}
			}
		}
	} else {
		opts = append(opts, allowed...)
	}
	if d.depth == len(d.stack) {
		d.stack = append(d.stack, choice{opts: opts})
	}
	c := d.stack[d.depth]
	d.depth++
	if c.idx >= len(opts) {
		c.idx = 0 // cannot happen for a deterministic program
	}
	t := opts[c.idx]
	if le && t != last {
		d.budget--
	}
	return t
}

// advance moves to the next schedule; false when the enumeration is complete
func (d *dfsChooser) advance() bool {
	d.stack = d.stack[:d.depth]
	for len(d.stack) > 0 {
		top := &d.stack[len(d.stack)-1]
		if top.idx+1 < len(top.opts) {
			top.idx++
			return true
		}
		d.stack = d.stack[:len(d.stack)-1]
	}
	return false
}


// ---------------------------------------------------------------- site table, directed schedules

// siteOps: site -> shared-memory operations performed there (written by xlate_conc -sites from the
// same walk that instrumented the source).  Used only to DIRECT the schedule search (where is a
// compare-and-swap, where is a write); every schedule it produces is an ordinary schedule and is
// recorded and judged like any other.
var siteOps = map[int][]string{}

func loadSites(path string) {
	if path == "" {
		return
	}
	b, err := os.ReadFile(path)
	if err != nil {
		fmt.Fprintln(os.Stderr, "site table:", err)
		os.Exit(2)
	}
	var tab map[string]struct {
		Func string   `json:"func"`
		Ops  []string `json:"ops"`
	}
	if err := json.Unmarshal(b, &tab); err != nil {
		fmt.Fprintln(os.Stderr, "site table:", err)
		os.Exit(2)
	}
	for k, v := range tab {
		var n int
		fmt.Sscan(k, &n)
		siteOps[n] = v.Ops
	}
}

// siteMap: API function -> site in the source -> canonical site (written by xlate_conc -sitemap:
// the sites a function reaches through its helpers, numbered in the order of a walk of its call
// tree).  Recorded sites are canonical, so that moving an operation into a helper does not change
// what is recorded; the directed search above works on the source's own sites.
var siteMap = map[string]map[int]int{}

func loadSiteMap(path string) {
	if path == "" {
		return
	}
	b, err := os.ReadFile(path)
	if err != nil {
		fmt.Fprintln(os.Stderr, "site map:", err)
		os.Exit(2)
	}
	var tab map[string]map[string]int
	if err := json.Unmarshal(b, &tab); err != nil {
		fmt.Fprintln(os.Stderr, "site map:", err)
		os.Exit(2)
	}
	for fn, m := range tab {
		siteMap[fn] = map[int]int{}
		for k, v := range m {
			var n int
			fmt.Sscan(k, &n)
			siteMap[fn][n] = v
		}
	}
}

func canonSite(c callT, site int) int {
	fn := "Add"
	if c.K == "wait" {
		fn = "Wait"
	}
	if v, ok := siteMap[fn][site]; ok {
		return v
	}
	return site
}

func isCASSite(site int) bool {
	for _, o := range siteOps[site] {
		if strings.HasPrefix(o, "ACAS:") {
			return true
		}
	}
	return false
}

// isWriteSite: the operation at the site can change shared memory (anything but plain loads).
// Without a site table every site counts as a write.
func isWriteSite(site int) bool {
	ops, ok := siteOps[site]
	if !ok {
		return true
	}
	for _, o := range ops {
		if !strings.HasPrefix(o, "ALoad:") {
			return true
		}
	}
	return false
}

// starveChooser is an ADVERSARIAL schedule prefix followed by an ordinary chooser (the tail):
//
//	lead     whole calls of other threads run first (brings the group to a chosen state);
//	window   whenever the victim is parked in front of a compare-and-swap - it has loaded the
//	         state and is about to publish its update - m whole calls of other threads run first,
//	         then the victim takes its step; repeated for k windows.
//
// With m = 1 and calls that change the state the victim LOSES k compare-and-swap rounds in a row
// (code whose behaviour depends on the number of lost rounds - bounded retries, back-off,
// fallback paths - is driven down that path for every k); with m = 2 and calls that drive the
// state away and back (Dec to zero, Inc from zero) the victim's compare-and-swap meets a state
// that looks like the one it loaded (ABA).  After the k windows, or when nobody is left to feed
// them, the tail chooser (bounded-preemption enumeration / random) takes over.
type starveChooser struct {
	// stall > 0: after the windows the victim runs on until it has passed stall compare-and-swap
	// operations and is still inside its call - it has published (or failed to publish) its update
	// and has its follow-up steps (close, hand-over to a helper, a second write) ahead of it;
	// there the tail takes over, so that whole and partial calls of the others overlap the gap
	// between a compare-and-swap and what follows it
	stall, passed  int
	tailStarted    bool
	lastSite       int
	lastCall       int
	victim, k, m, lead int
	tail               chooser
	r                  *runner
	leadDone, w, fed   int
	feeding, target    int
	inTail             bool
}

func (c *starveChooser) bind(r *runner) { c.r = r; c.feeding = -1 }

func contains(l []int, t int) bool {
	for _, x := range l {
		if x == t {
			return true
		}
	}
	return false
}

// feed returns the thread to step in order to run one more whole foreign call, -1 when nobody can;
// done reports that the call it was running has just completed.
func (c *starveChooser) feed(allowed []int) (t int, done bool) {
	r := c.r
	if c.feeding >= 0 {
		f := c.feeding
		if r.callIdx[f] >= c.target || r.s.Finished(f) {
			c.feeding = -1
			return -1, true
		}
		if contains(allowed, f) {
			return f, false
		}
		c.feeding = -1 // gated or parked: give up on it
	}
	for _, f := range allowed {
		if f != c.victim && !r.inCall[f] {
			c.feeding, c.target = f, r.callIdx[f]+1
			return f, false
		}
	}
	for _, f := range allowed {
		if f != c.victim {
			c.feeding, c.target = f, r.callIdx[f]+1
			return f, false
		}
	}
	return -1, false
}

func (c *starveChooser) next(step, last int, le bool, allowed []int) int {
	r := c.r
	for !c.inTail {
		if c.leadDone < c.lead {
			t, done := c.feed(allowed)
			if done {
				c.leadDone++
				continue
			}
			if t >= 0 {
				return t
			}
			c.leadDone = c.lead
			continue
		}
		v := c.victim
		if c.w >= c.k && c.stall > 0 && contains(allowed, v) {
			if isCASSite(c.lastSite) && r.inCall[v] && r.callIdx[v] == c.lastCall {
				c.passed++
			}
			c.lastSite = 0
			if c.passed < c.stall {
				c.lastSite, c.lastCall = r.site[v], r.callIdx[v]
				if !r.inCall[v] {
					c.lastSite = 0
				}
				return v
			}
		}
		if c.w >= c.k || !contains(allowed, v) {
			c.inTail = true
			break
		}
		if !(r.inCall[v] && isCASSite(r.site[v])) {
			return v
		}
		if c.fed < c.m {
			t, done := c.feed(allowed)
			if done {
				c.fed++
				continue
			}
			if t >= 0 {
				return t
			}
			c.inTail = true // nobody left to feed the window
			break
		}
		c.fed = 0
		c.w++
		return v
	}
	if c.stall > 0 && !c.tailStarted {
		// the stall IS the preemption of the victim: the first step of the tail goes to one of
		// the others (each of them in turn) and is not charged to the tail's budget
		c.tailStarted = true
		var others []int
		for _, t := range allowed {
			if t != c.victim {
				others = append(others, t)
			}
		}
		if len(others) > 0 {
			return c.tail.next(step, last, false, others)
		}
	}
	c.tailStarted = true
	return c.tail.next(step, last, le, allowed)
}

type starveShape struct {
	stall   bool // k counts compare-and-swap operations passed by the victim, not windows
	name    string
	victim  []callT
	lead    []callT // feeder's calls before the victim starts
	window  []callT // feeder's calls per window (m = len)
	tailThr []callT
}

// the shapes of the directed search: victim | feeder | third goroutine.  The feeder has exactly
// lead + k*m calls, so after the prefix only the victim and the third goroutine are live.
var starveShapes = []starveShape{
	{false, "starve:inc", []callT{add(1)}, nil, []callT{add(1)}, []callT{add(1)}},
	{false, "starve:inc/inc-dec", []callT{add(1)}, nil, []callT{add(1)}, []callT{add(1), add(-1)}},
	{false, "starve:inc/wait", []callT{add(1)}, nil, []callT{add(1)}, []callT{wait}},
	{false, "starve:inc@1", []callT{add(1)}, []callT{add(1)}, []callT{add(1)}, []callT{add(1)}},
	{false, "starve:dec@2", []callT{add(-1)}, []callT{add(2)}, []callT{add(1)}, []callT{add(1)}},
	{false, "starve:dec@2/wait", []callT{add(-1)}, []callT{add(2)}, []callT{add(1)}, []callT{wait}},
	{false, "aba:inc@1/wait", []callT{add(1)}, []callT{add(1)}, []callT{add(-1), add(1)}, []callT{wait}},
	{false, "aba:inc@1/inc", []callT{add(1)}, []callT{add(1)}, []callT{add(-1), add(1)}, []callT{add(1)}},
	{false, "aba:inc-dec@1/wait", []callT{add(1), add(-1)}, []callT{add(1)}, []callT{add(-1), add(1)}, []callT{wait}},
	// the victim is stalled right after its k-th compare-and-swap: two zero crossings whose
	// follow-up steps overlap, a waiter in between (feeder = its "window" calls once)
	{true, "stall:inc-dec|inc-dec|wait", []callT{add(1), add(-1)}, nil, []callT{add(1), add(-1)}, []callT{wait}},
	{true, "stall:inc-dec|inc-dec|wait-wait", []callT{add(1), add(-1)}, nil, []callT{add(1), add(-1)}, []callT{wait, wait}},
	{true, "stall:inc-dec-inc-dec|dec-inc|wait", []callT{add(1), add(-1), add(1), add(-1)}, []callT{add(1)}, []callT{add(-1), add(1)}, []callT{wait}},
}

func (sh starveShape) progs(k int) [][]callT {
	if sh.stall {
		return [][]callT{sh.victim, append(append([]callT{}, sh.lead...), sh.window...), sh.tailThr}
	}
	feeder := append([]callT{}, sh.lead...)
	for i := 0; i < k; i++ {
		feeder = append(feeder, sh.window...)
	}
	return [][]callT{sh.victim, feeder, sh.tailThr}
}

// ---------------------------------------------------------------- programs

func add(d int) callT { return callT{K: "add", D: d} }

var inc = callT{K: "add", D: 1, Via: "inc"}
var dec = callT{K: "add", D: -1, Via: "dec"}

var wait = callT{K: "wait"}

type namedProg struct {
	name  string
	progs [][]callT
}

// the catalogue: 2-4 goroutines, 1-4 calls each, decrements after matching increments
// (cross-thread decrements are gated by the scheduler until the increment has returned)
var catalogue = []namedProg{
	{"inc|inc-dec|wait", [][]callT{{inc}, {inc, dec}, {wait}}},
	{"inc|inc-dec-inc|wait", [][]callT{{add(1)}, {add(1), add(-1), add(1)}, {wait}}},
	{"inc-dec|inc", [][]callT{{add(1), add(-1)}, {add(1)}}},
	{"inc-dec|inc-dec", [][]callT{{inc, dec}, {add(1), add(-1)}}},
	{"inc-dec|wait-wait", [][]callT{{inc, dec}, {wait, wait}}},
	{"inc-dec|inc-dec|wait", [][]callT{{add(1), add(-1)}, {add(1), add(-1)}, {wait}}},
	{"add2|dec|dec|wait", [][]callT{{add(2)}, {dec}, {add(-1)}, {wait}}},
	{"add2-dec2|inc-wait-dec", [][]callT{{add(2), add(-2)}, {add(1), wait, add(-1)}}},
	{"inc-wait-dec-wait|inc-dec", [][]callT{{add(1), wait, add(-1), wait}, {add(1), add(-1)}}},
	{"inc-dec-inc-dec|wait|wait", [][]callT{{add(1), add(-1), add(1), add(-1)}, {wait}, {wait}}},
	{"inc|dec|inc|dec", [][]callT{{inc}, {dec}, {add(1)}, {add(-1)}}},
	{"inc-inc|dec-wait|dec-wait", [][]callT{{add(1), add(1)}, {add(-1), wait}, {add(-1), wait}}},
	// Add(0) is an Add call like any other (wg.Add(len(batch)) with an empty batch): on an idle
	// group, between an Inc and its Dec, and after the group returned to zero
	{"add0|wait", [][]callT{{add(0)}, {wait}}},
	{"add0-inc-add0-dec|wait-add0", [][]callT{{add(0), add(1), add(0), add(-1)}, {wait, add(0)}}},
	{"inc-dec|add0-wait", [][]callT{{add(1), add(-1)}, {add(0), wait}}},
	// increments by more than one from zero, a decrement by more than one reaching exactly zero
	{"add3-dec-dec2|wait", [][]callT{{add(3), add(-1), add(-2)}, {wait}}},
	{"add3|dec3-wait", [][]callT{{add(3)}, {add(-3), wait}}},
	// four goroutines: three producers each returning the group towards zero and a waiter; cross
	// goroutine decrements (gated until covered) next to two waiters; Inc/Dec and Add mixed
	{"inc-dec|inc-dec|inc-dec|wait", [][]callT{{inc, dec}, {add(1), add(-1)}, {inc, add(-1)}, {wait}}},
	{"inc|inc|dec-dec|wait-wait", [][]callT{{inc}, {add(1)}, {dec, add(-1)}, {wait, wait}}},
	{"add2-dec-dec|wait|inc-dec|wait", [][]callT{{add(2), dec, dec}, {wait}, {inc, dec}, {wait}}},
}

type corpusEntry struct {
	name  string
	progs [][]callT
	sched []int
}

// DESIGN section 5 witnesses (found by WGSearch on the model of the pinned code)
var corpus = []corpusEntry{
	{"C01-early-release", [][]callT{{add(1)}, {add(1), add(-1)}, {wait}},
		[]int{0, 1, 1, 1, 1, 1, 0, 0, 0, 2, 2, 2, 1, 1}},
	{"C01-early-release-3calls", [][]callT{{add(1)}, {add(1), add(-1), add(1)}, {wait}},
		[]int{0, 1, 1, 1, 1, 1, 0, 0, 0, 2, 2, 2, 1, 1}},
	{"C02-count1-with-sentinel", [][]callT{{add(1), add(-1)}, {add(1)}, {wait}},
		[]int{0, 0, 0, 0, 0, 1, 1, 1, 0, 0, 1, 2, 2, 2, 2, 2}},
	{"sequential", [][]callT{{add(1), wait, add(-1), wait}}, nil},
	{"sequential-inc-dec", [][]callT{{inc, wait, dec, wait, inc, inc, dec, dec}}, nil},
	{"add0-idle", [][]callT{{add(0)}}, nil},
	{"add0-idle-then-cycle", [][]callT{{add(0), wait, add(1), add(-1)}}, nil},
	{"add0-inside-and-after-cycle", [][]callT{{add(1), add(0), wait, add(-1), add(0), wait}}, nil},
	{"add3-dec3", [][]callT{{add(3), wait, add(-3)}}, nil},
	{"add2-dec-dec", [][]callT{{add(2), add(-1), add(-1)}, {wait}}, []int{0, 0, 1, 1, 0, 0, 0, 0}},
	// big deltas: the count is an `int`; a counter narrowed to 32 bits wraps at 1<<31 / 1<<32
	// (two Add(1<<31) give 0: the sentinel is installed and the waiters' channel closed at count
	// 2^32), one stored in 64 bits must carry 1<<62
	{"big-2^31-twice", [][]callT{{add(1 << 31), wait, add(1 << 31), wait, add(-(1 << 31)), add(-(1 << 31)), wait}}, nil},
	{"big-2^31|2^31-wait", [][]callT{{add(1 << 31)}, {add(1 << 31), wait}}, []int{0, 0, 1, 1, 0, 1, 1, 1}},
	{"big-2^32", [][]callT{{add(1 << 32), wait, add(-(1 << 32)), wait}}, nil},
	{"big-2^62", [][]callT{{add(1 << 62), wait, add(-(1 << 62)), wait}}, nil},
	{"big-2^31-minus-1-plus-1", [][]callT{{add(1<<31 - 1), inc, wait, dec, add(-(1<<31 - 1))}}, nil},
}

func withProbe(p [][]callT) [][]callT {
	out := make([][]callT, 0, len(p)+1)
	out = append(out, p...)
	return append(out, []callT{wait})
}

func randProg(r *rand.Rand) [][]callT {
	n := 2 + r.IntN(3)
	p := make([][]callT, n)
	for t := 0; t < n; t++ {
		k := 1 + r.IntN(4)
		bal := 0
		for i := 0; i < k; i++ {
			switch x := r.IntN(11); {
			case x == 10:
				p[t] = append(p[t], add(0))
			case x < 4:
				d := 1 + r.IntN(3)
				if d == 1 && r.IntN(2) == 0 {
					p[t] = append(p[t], inc)
				} else {
					p[t] = append(p[t], add(d))
				}
				bal += d
			case x < 7:
				// a decrement: mostly of this thread's own balance, sometimes of another thread's
				d := 1
				if bal >= 2 && r.IntN(2) == 0 {
					d = bal // a decrement by more than one reaching exactly this thread's zero
				}
				if d == 1 && r.IntN(2) == 0 {
					p[t] = append(p[t], dec)
				} else {
					p[t] = append(p[t], add(-d))
				}
				bal -= d
			default:
				p[t] = append(p[t], wait)
			}
		}
	}
	// total must not be negative, otherwise some decrement can never be issued
	tot := 0
	for _, th := range p {
		for _, c := range th {
			tot += c.D
		}
	}
	if tot < 0 {
		p[0] = append([]callT{add(-tot)}, p[0]...)
		if len(p[0]) > 4 {
			p[0] = p[0][:4]
		}
	}
	return p
}

// ---------------------------------------------------------------- output

// gZ renders an integer for an argument position whose scope is Z (no %Z delimiter: the
// case terms are large and every notation node costs elaboration time).
func gZ(v int) string {
	if v < 0 {
		return fmt.Sprintf("(%d)", v)
	}
	return fmt.Sprint(v)
}

func gCall(c callT) string {
	if c.K == "add" {
		return "CAdd " + gZ(c.D)
	}
	return "CWait"
}

func gItem(it itemT) string {
	var ev string
	switch it.Ev {
	case "call":
		ev = "(ECall (" + gCall(*it.Call) + "))"
	case "ret":
		switch {
		case it.Panic:
			ev = "(ERet (" + gCall(*it.Call) + ") RPanic)"
		case it.Call.K == "add":
			ev = "(ERet (" + gCall(*it.Call) + ") (RInt " + gZ(it.Val) + "))"
		default:
			ev = fmt.Sprintf("(ERet CWait (RChan %d))", it.Val)
		}
	case "tau":
		ev = "ETau"
	default:
		ev = "EStutter"
	}
	return fmt.Sprintf("ti %d %s %s %s %d", it.Tid, ev, gZ(it.Count),
		gal.ListOf(it.Closed, func(i int) string { return fmt.Sprint(i) }), it.Site)
}

func gCase(c caseT) string {
	progs := gal.ListOf(c.Progs, func(p []callT) string { return gal.ListOf(p, gCall) })
	sched := gal.ListOf(c.Sched, func(i int) string { return fmt.Sprint(i) })
	return "WGCase " + progs + " " + sched + " " + gal.ListOf(c.Obs, gItem) + " " + fmt.Sprint(c.Tmo)
}

// encCase packs a case into 60-bit words of five 12-bit fields (signed values offset by 2048):
//
//	nthreads, then per thread: ncalls, then per call: kind (0 add, 1 wait), delta
//	tmo, nsteps, then per step: tid, event (0 call, 1 ret, 2 tau, 3 stutter, 4 ret-panic),
//	call kind, call delta, value, Count(), site, nclosed, closed...
//	nprobes, then per probe: position, code
//
// WGJudge.decode_case reads it back.  Elaborating such a literal costs a few ms per case, the
// readable constructor form cost 20-35 ms.
func encCase(c caseT) string {
	var f []int
	// a signed value: one field v+2048 for |v| < 2047, otherwise the escape 4095, a sign field and
	// the magnitude in six 12-bit fields (little endian) - deltas such as 1<<31, 1<<32, 1<<62
	sgn := func(v int) []int {
		if v > -2047 && v < 2047 {
			return []int{v + 2048}
		}
		neg, m := 0, uint64(v)
		if v < 0 {
			neg, m = 1, uint64(-v)
		}
		out := []int{4095, neg}
		for i := 0; i < 6; i++ {
			out = append(out, int(m&4095))
			m >>= 12
		}
		return out
	}
	f = append(f, len(c.Progs))
	for _, p := range c.Progs {
		f = append(f, len(p))
		for _, cl := range p {
			k := 0
			if cl.K != "add" {
				k = 1
			}
			f = append(f, k)
			f = append(f, sgn(cl.D)...)
		}
	}
	f = append(f, c.Tmo, len(c.Obs))
	for _, it := range c.Obs {
		ev := map[string]int{"call": 0, "ret": 1, "tau": 2, "stutter": 3}[it.Ev]
		if it.Panic {
			ev = 4
		}
		k, d := 0, 0
		if it.Call != nil {
			if it.Call.K != "add" {
				k = 1
			}
			d = it.Call.D
		}
		f = append(f, it.Tid, ev, k)
		f = append(f, sgn(d)...)
		f = append(f, sgn(it.Val)...)
		f = append(f, sgn(it.Count)...)
		f = append(f, it.Site, len(it.Closed))
		f = append(f, it.Closed...)
	}
	f = append(f, len(c.Probes))
	for _, p := range c.Probes {
		f = append(f, p.Pos, p.Code)
	}
	for _, v := range f {
		if v < 0 || v > 4095 {
			panic(fmt.Sprintf("field %d does not fit 12 bits", v))
		}
	}
	var words []string
	for i := 0; i < len(f); i += 5 {
		var w uint64
		for k := 0; k < 5 && i+k < len(f); k++ {
			w |= uint64(f[i+k]) << (12 * uint(k))
		}
		words = append(words, fmt.Sprint(w))
	}
	// the scope delimiter makes the numerals primitive integers wherever the term is used
	return "[" + strings.Join(words, ";") + "]%uint63"
}

var readable = false

// sparseObs: observe Count() only at positions with no Add in flight (see stepThread)
var sparseObs = false

type emitter struct {
	out  *gal.Out
	seen map[string]bool
	dup  int
}

// totalBudget of cases / bytes of one harness process: enumerations stop when it is used up (the
// ENUM line then says complete=false); a source with many yield points per call otherwise makes
// the bounded-preemption enumerations explode (one run reached 930 000 cases and 6 GB of output)
var maxTotalCases = 1 << 30
var maxTotalBytes = int64(1) << 40
var emittedBytes int64

func budgetLeft(e *emitter) bool {
	return e.out.N < maxTotalCases && emittedBytes < maxTotalBytes
}

func (e *emitter) emit(c caseT) {
	if !budgetLeft(e) {
		return
	}
	emittedBytes += int64(200 * len(c.Obs))
	if e.seen != nil {
		key := fmt.Sprint(c.Progs, c.Sched)
		if e.seen[key] {
			e.dup++
			return
		}
		e.seen[key] = true
	}
	if readable {
		e.out.Case(gCase(c), c)
	} else {
		e.out.Case(encCase(c), c)
	}
}

// ---------------------------------------------------------------- free-running stress

// stress runs catalogue programs with the Go scheduler in charge (no baton).  Every call and
// return is appended to one log under a mutex - the call entry before the call starts, the
// return entry after it has returned - and an observer keeps appending which of the channels
// handed out so far it has seen closed (checked BEFORE the entry is appended).  The log order
// is therefore a linearisation in which increments count later and decrements earlier than in
// real time and observations come later: judging it with c01_ok (lower bound = returned
// increments + called decrements) can only miss violations, never invent one.  At the end of
// each run the at-rest clauses of C02 are checked directly.  With -race the race detector
// watches the code as well.
type stressLog struct {
	mu     sync.Mutex
	items  []itemT
	chans  []<-chan struct{}
	closed map[int]bool
}

func (l *stressLog) closedList() []int {
	out := []int{}
	for i := range l.chans {
		if l.closed[i] {
			out = append(out, i)
		}
	}
	return out
}

func (l *stressLog) event(tid int, ev string, c callT, val int, ch <-chan struct{}) {
	l.mu.Lock()
	defer l.mu.Unlock()
	cc := c
	it := itemT{Tid: tid, Ev: ev, Call: &cc, Val: val}
	if ch != nil {
		idx := -1
		for i, k := range l.chans {
			if k == ch {
				idx = i
			}
		}
		if idx < 0 {
			l.chans = append(l.chans, ch)
			idx = len(l.chans) - 1
		}
		it.Val = idx
	}
	it.Closed = l.closedList()
	l.items = append(l.items, it)
}

func (l *stressLog) observe(tid int) {
	l.mu.Lock()
	cs := append([]<-chan struct{}{}, l.chans...)
	l.mu.Unlock()
	seen := map[int]bool{}
	for i, ch := range cs {
		if isClosed(ch) {
			seen[i] = true
		}
	}
	l.mu.Lock()
	defer l.mu.Unlock()
	changed := false
	for i := range seen {
		if !l.closed[i] {
			l.closed[i] = true
			changed = true
		}
	}
	if changed || len(l.items) == 0 || l.items[len(l.items)-1].Ev != "stutter" {
		l.items = append(l.items, itemT{Tid: tid, Ev: "stutter", Closed: l.closedList()})
	}
}

type stressBad struct {
	Program string    `json:"program"`
	Progs   [][]callT `json:"progs"`
	What    string    `json:"what"`
}

// doAdd makes an Add call the way the client program says: through Inc() / Dec() for via-calls
func doAdd(wg *gsync.SelectableWaitGroup, c callT) int {
	switch {
	case c.Via == "inc" && c.D == 1:
		return wg.Inc()
	case c.Via == "dec" && c.D == -1:
		return wg.Dec()
	}
	return wg.Add(c.D)
}

// hammer: one unit is held for the whole run (an Inc that returned before anything else starts),
// so the count is at least 1 at every instant and the conservative lower bound of the property is
// >= 1 throughout: ANY channel that Wait() hands out during the run and that is observed closed
// before the unit is given back violates C01, whatever the schedule was - no log order, no
// linearisation needed.  g goroutines do Inc;Dec / Add(2);Add(-2) / Inc;Inc;Dec;Dec in a loop, the
// observer calls Wait() and polls what it got.  Finds what needs many operations in flight at once
// and luck with them (striped counters, settle-after-add designs) rather than one precise schedule.
func hammer(secs float64, g int) (bool, string) {
	wg := gsync.NewSelectableWaitGroup()
	wg.Inc()
	stop := make(chan struct{})
	var done sync.WaitGroup
	var ops atomic.Int64
	for i := 0; i < g; i++ {
		i := i
		done.Add(1)
		go func() {
			defer done.Done()
			defer func() { _ = recover() }()
			for {
				select {
				case <-stop:
					return
				default:
				}
				switch i % 3 {
				case 0:
					wg.Inc()
					wg.Dec()
				case 1:
					wg.Add(2)
					wg.Add(-2)
				default:
					wg.Inc()
					wg.Inc()
					wg.Dec()
					wg.Dec()
				}
				ops.Add(1)
			}
		}()
	}
	bad := ""
	deadline := time.Now().Add(time.Duration(secs * float64(time.Second)))
	var held []<-chan struct{}
	for time.Now().Before(deadline) && bad == "" {
		res := make(chan (<-chan struct{}), 1)
		go func() { res <- wg.Wait() }()
		select {
		case ch := <-res:
			held = append(held, ch)
			if len(held) > 64 {
				held = held[1:]
			}
		case <-time.After(2 * time.Second):
			bad = "Wait() did not return within 2 s"
		}
		for _, ch := range held {
			if isClosed(ch) {
				bad = "a channel handed out by Wait() is closed although one unit (an Inc that returned before the run) has been held all the time"
			}
		}
		runtime.Gosched()
	}
	close(stop)
	done.Wait()
	n := ops.Load()
	if bad == "" {
		if c := wg.Count(); c != 1 {
			bad = fmt.Sprintf("at rest Count()=%d, one unit is held", c)
		}
	}
	return bad != "", fmt.Sprintf("hammer: Inc() held; %d goroutines in Inc;Dec / Add(2);Add(-2) / Inc;Inc;Dec;Dec loops (%d rounds); observer calling Wait(): %s", g, n, bad)
}

func stress(seed uint64, iters int, secs float64, em *emitter, maxTraces int) int {
	r := gal.NewRand(seed)
	var ctr atomic.Uint64
	gsync.VerifYield = func(site int) {
		if ctr.Add(1)%5 == 0 {
			runtime.Gosched()
		}
	}
	bad := 0
	if secs > 0 {
		hs := secs / 3
		if hs > 6 {
			hs = 6
		}
		if isBad, what := hammer(hs, 6); isBad {
			b, _ := json.Marshal(stressBad{"hammer", [][]callT{{inc}, {inc, dec}, {add(2), add(-2)}, {inc, inc, dec, dec}, {wait}}, what})
			fmt.Printf("STRESS-BAD %s\n", b)
			bad++
		} else {
			fmt.Println("HAMMER ok:", what)
		}
	}
	report := func(np namedProg, what string) {
		b, _ := json.Marshal(stressBad{np.name, np.progs, what})
		fmt.Printf("STRESS-BAD %s\n", b)
		bad++
	}
	deadline := time.Now().Add(time.Duration(secs * float64(time.Second)))
	it := 0
	for ; (secs > 0 && time.Now().Before(deadline)) || (secs <= 0 && it < iters); it++ {
		np := catalogue[r.IntN(len(catalogue))]
		if it%3 == 2 {
			// a random program in which every goroutine covers its own decrements
			p := randProg(r)
			selfOK := true
			for _, th := range p {
				bal := 0
				for _, c := range th {
					bal += c.D
					if bal < 0 {
						selfOK = false // it would wait for somebody else's increment: catalogue programs do that in a deadlock-free way
					}
				}
			}
			if selfOK {
				np = namedProg{"random-program", p}
			}
		}
		wg := gsync.NewSelectableWaitGroup()
		lg := &stressLog{closed: map[int]bool{}}
		obsTid := len(np.progs)
		// cross-thread decrements need their increments first: a semaphore of returned increments
		sem := make(chan struct{}, 64)
		var done sync.WaitGroup
		sum := 0
		for _, th := range np.progs {
			for _, c := range th {
				sum += c.D
			}
		}
		start := make(chan struct{})
		for t, th := range np.progs {
			t, th := t, th
			done.Add(1)
			go func() {
				defer done.Done()
				<-start
				for _, c := range th {
					switch {
					case c.K == "wait":
						lg.event(t, "call", c, 0, nil)
						ch := wg.Wait()
						lg.event(t, "ret", c, 0, ch)
						lg.observe(obsTid)
					case c.D >= 0:
						lg.event(t, "call", c, 0, nil)
						v := doAdd(wg, c)
						lg.event(t, "ret", c, v, nil)
						for i := 0; i < c.D; i++ {
							sem <- struct{}{}
						}
					default:
						for i := 0; i < -c.D; i++ {
							<-sem
						}
						lg.event(t, "call", c, 0, nil)
						v := doAdd(wg, c)
						lg.event(t, "ret", c, v, nil)
					}
				}
			}()
		}
		fin := make(chan struct{})
		go func() { done.Wait(); close(fin) }()
		close(start)
		hung := false
		giveUp := time.After(3 * time.Second)
	poll:
		for {
			select {
			case <-fin:
				break poll
			case <-giveUp:
				hung = true
				break poll
			default:
				lg.observe(obsTid)
				runtime.Gosched()
			}
		}
		if hung {
			report(np, "goroutines did not finish (a Wait call spins)")
			continue
		}
		lg.observe(obsTid)
		if wg.Count() != sum {
			report(np, fmt.Sprintf("at rest Count()=%d but the sum of deltas is %d", wg.Count(), sum))
		}
		if sum == 0 {
			lg.mu.Lock()
			open := -1
			for i, ch := range lg.chans {
				if !isClosed(ch) {
					open = i
				}
			}
			lg.mu.Unlock()
			if open >= 0 {
				report(np, fmt.Sprintf("count 0 at rest but handed-out channel #%d is open", open))
			}
			if wg.WaitTimeout(time.Second) != nil {
				report(np, "WaitTimeout(1s) returned an error at count 0")
			}
		} else {
			res := make(chan bool, 1)
			go func() { res <- isClosed(wg.Wait()) }()
			select {
			case cl := <-res:
				if cl {
					report(np, fmt.Sprintf("count %d at rest but Wait() returned a closed channel", sum))
				}
			case <-time.After(2 * time.Second):
				report(np, fmt.Sprintf("Wait() does not return at rest (count %d)", sum))
			}
		}
		if em != nil && em.out.N < maxTraces {
			progs := append(append([][]callT{}, np.progs...), []callT{})
			sched := make([]int, len(lg.items))
			for i, x := range lg.items {
				sched[i] = x.Tid
			}
			em.emit(caseT{Kind: "stress", Name: np.name, Progs: progs, Sched: sched, Obs: lg.items, Tmo: 3})
		}
	}
	fmt.Printf("STRESS iterations=%d bad=%d\n", it, bad)
	return bad
}

// ---------------------------------------------------------------- main

func main() {
	seed := flag.Uint64("seed", 1, "seed")
	outp := flag.String("out", "", "output prefix")
	mode := flag.String("mode", "corpus", "corpus|random|pb|exhaustive|starve|randprog|replay|stress|deadline")
	n := flag.Int("n", 100, "schedules per program (random), programs (randprog), iterations (stress)")
	pre := flag.Int("pre", 2, "preemption bound (pb)")
	only := flag.String("progs", "", "comma separated catalogue indices (default all)")
	maxCases := flag.Int("max", 200000, "stop enumerating after this many cases per program")
	tmoEvery := flag.Int("tmoevery", 1, "probe WaitTimeout on every k-th case (0 = never)")
	file := flag.String("file", "", "replay: JSON file with progs and sched")
	secs := flag.Float64("secs", 0, "stress: run for this many seconds (0 = -n iterations)")
	flag.BoolVar(&readable, "readable", false, "write the cases as readable WGCase terms instead of packed words")
	sitesFile := flag.String("sites", "", "site table written by xlate_conc -sites (directs the starve mode and -wo)")
	kmax := flag.Int("k", 6, "starve: windows (lost compare-and-swap rounds) 1..k")
	kmin := flag.Int("kmin", 1, "starve: smallest number of windows")
	writeOnly := flag.Bool("wo", false, "pb/starve: preempt only in front of writes")
	shapes := flag.String("shapes", "", "starve: comma separated shape indices (default all)")
	procs := flag.Int("procs", 1, "GOMAXPROCS of the scheduled modes (stress always uses the default)")
	flag.BoolVar(&sparseObs, "sparseobs", false, "call Count() only when no Add is in flight (sources whose tie is broken)")
	flag.IntVar(&maxTotalCases, "total", 1<<30, "stop emitting after this many cases in this process")
	totalMB := flag.Int("totalmb", 1<<20, "stop emitting after about this many MB of recorded steps")
	dms := flag.Int("dms", 300, "deadline: the timeout d in milliseconds")
	flag.BoolVar(&allowNeg, "neg", false, "do not gate decrements on the lower bound: the count may go negative (search after a broken tie, C02 only)")
	siteMapFile := flag.String("sitemap", "", "canonical site table written by xlate_conc -sitemap")
	flag.Parse()
	maxTotalBytes = int64(*totalMB) << 20
	loadSites(*sitesFile)
	loadSiteMap(*siteMapFile)
	if *mode == "deadline" {
		loadSites(*sitesFile)
		deadlineMode(*outp, *dms)
		return
	}
	if *mode == "stress" {
		var em *emitter
		if *outp != "" {
			em = &emitter{out: gal.NewOut(*outp)}
		}
		nbad := stress(*seed, *n, *secs, em, *maxCases)
		if em != nil {
			em.out.Close()
		}
		if nbad > 0 && *outp == "" {
			os.Exit(1)
		}
		return
	}
	// Scheduled modes: exactly one goroutine runs at any time, so one P is enough - and it makes
	// per-P runtime state (sync.Pool's private slots, timer heaps) a function of the schedule
	// alone: with several Ps the P a woken worker lands on, hence whether a pooled object put back
	// by one goroutine is the one the next goroutine gets, varied from run to run.
	runtime.GOMAXPROCS(*procs)
	r := gal.NewRand(*seed)
	em := &emitter{out: gal.NewOut(*outp), seen: map[string]bool{}}
	defer em.out.Close()
	ncase := 0
	probe := func() bool {
		ncase++
		return *tmoEvery > 0 && ncase%*tmoEvery == 0
	}
	var sel []namedProg
	if *only == "" {
		sel = catalogue
	} else {
		for _, s := range strings.Split(*only, ",") {
			var i int
			fmt.Sscan(s, &i)
			if i >= 0 && i < len(catalogue) {
				sel = append(sel, catalogue[i])
			}
		}
	}
	switch *mode {
	case "corpus":
		for _, c := range corpus {
			em.emit(runCase("corpus", c.name, withProbe(c.progs), &fixedChooser{sched: append([]int{}, c.sched...)}, true))
		}
	case "replay":
		type repT struct {
			Progs [][]callT `json:"progs"`
			Sched []int     `json:"sched"`
		}
		var rep struct {
			repT
			Batch []repT `json:"batch"`
		}
		b, err := os.ReadFile(*file)
		if err == nil {
			err = json.Unmarshal(b, &rep)
		}
		if err != nil {
			fmt.Fprintln(os.Stderr, err)
			os.Exit(2)
		}
		// the recorded programs already contain the probe thread; duplicates are kept so that
		// the output stays index-aligned with the batch
		em.seen = nil
		if len(rep.Batch) == 0 {
			rep.Batch = []repT{rep.repT}
		}
		for _, one := range rep.Batch {
			em.emit(runCase("replay", "replay", one.Progs, &fixedChooser{sched: append([]int{}, one.Sched...)}, true))
		}
	case "random":
		for _, np := range sel {
			for i := 0; i < *n && budgetLeft(em); i++ {
				st := []float64{0, 0.5, 0.8, 0.9}[i%4]
				em.emit(runCase("random", np.name, withProbe(np.progs), &randChooser{r, st}, probe()))
			}
		}
	case "randprog":
		for i := 0; i < *n && budgetLeft(em); i++ {
			p := randProg(r)
			if allowNeg {
				// negative excursions (outside C01's side condition, inside C02's unconditional
				// statement): some goroutines make their calls in reverse order, so that decrements
				// overtake the increments that cover them and zero is reached from below
				rev := false
				for t := range p {
					if r.IntN(2) == 0 || (t == len(p)-1 && !rev) {
						rev = true
						for a, b := 0, len(p[t])-1; a < b; a, b = a+1, b-1 {
							p[t][a], p[t][b] = p[t][b], p[t][a]
						}
					}
				}
			}
			for k := 0; k < 3; k++ {
				st := []float64{0.3, 0.7, 0.9}[k]
				em.emit(runCase("randprog", "random-program", withProbe(p), &randChooser{r, st}, probe()))
			}
		}
	case "starve":
		// directed search: adversarial prefix (see starveChooser), then every tail with at most
		// -pre preemptions, plus -n random tails per prefix
		hasCAS := false
		for site := range siteOps {
			hasCAS = hasCAS || isCASSite(site)
		}
		if !hasCAS {
			// no compare-and-swap anywhere (a lock-based variant, ..): there is no window to
			// direct the search at; the other modes cover such code
			fmt.Println("STARVE skipped: the site table has no compare-and-swap site")
			break
		}
		var shp []starveShape
		if *shapes == "" {
			shp = starveShapes
		} else {
			for _, x := range strings.Split(*shapes, ",") {
				var i int
				fmt.Sscan(x, &i)
				if i >= 0 && i < len(starveShapes) {
					shp = append(shp, starveShapes[i])
				}
			}
		}
		for _, sh := range shp {
			for k := *kmin; k <= *kmax; k++ {
				name := fmt.Sprintf("%s k=%d", sh.name, k)
				progs := withProbe(sh.progs(k))
				if sh.stall && k > 4 {
					break
				}
				mk := func(tail chooser) *starveChooser {
					if sh.stall {
						return &starveChooser{victim: 0, stall: k, lead: len(sh.lead), tail: tail}
					}
					return &starveChooser{victim: 0, k: k, m: len(sh.window), lead: len(sh.lead), tail: tail}
				}
				d := &dfsChooser{pre: *pre, writeOnly: *writeOnly}
				if sh.stall && d.pre > 2 {
					d.pre = 2 // three live goroutines with whole programs: the stall is the third preemption
				}
				cnt, steps := 0, 0
				for {
					d.begin()
					cs := runCase("starve", name, progs, mk(d), probe())
					steps += len(cs.Obs)
					em.emit(cs)
					cnt++
					if !d.advance() || cnt >= *maxCases || !budgetLeft(em) {
						break
					}
				}
				for i := 0; i < *n && budgetLeft(em); i++ {
					st := []float64{0.5, 0.8}[i%2]
					cs := runCase("starve-random", name, progs, mk(&randChooser{r, st}), probe())
					steps += len(cs.Obs)
					em.emit(cs)
					cnt++
				}
				fmt.Printf("ENUM program=%q mode=starve pre=%d threads=%d schedules=%d steps=%d complete=%v\n",
					name, d.pre, len(progs)-1, cnt, steps, cnt < *maxCases)
			}
		}
	case "pb", "exhaustive":
		for _, np := range sel {
			d := &dfsChooser{pre: *pre, writeOnly: *writeOnly}
			if *mode == "exhaustive" {
				d.pre = -1
			}
			cnt, steps := 0, 0
			for {
				d.begin()
				cs := runCase(*mode, np.name, withProbe(np.progs), d, probe())
				steps += len(cs.Obs)
				em.emit(cs)
				cnt++
				if !d.advance() || cnt >= *maxCases || !budgetLeft(em) {
					break
				}
			}
			fmt.Printf("ENUM program=%q mode=%s pre=%d threads=%d schedules=%d steps=%d complete=%v\n",
				np.name, *mode, d.pre, len(np.progs), cnt, steps, cnt < *maxCases && budgetLeft(em))
		}
	}
	if !budgetLeft(em) {
		fmt.Printf("BUDGET exhausted: %d cases, about %d MB of steps\n", em.out.N, emittedBytes>>20)
	}
	fmt.Printf("CASES %d (duplicates dropped: %d)\n", em.out.N, em.dup)
}
