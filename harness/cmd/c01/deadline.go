//go:build wginstr

// deadline.go — the deadline probe of C02 ("WaitTimeout and WaitCTX honour their deadline
// whatever the count is"), -mode deadline.
//
// WaitTimeout(d) / WaitCTX(context.WithTimeout(d)) run on a goroutine of their own on the real
// code (Go scheduler, real timers).  A driver works the group meanwhile:
//
//	zero      the group is idle: the call must return nil at once (within 0.7 d);
//	positive  one Inc, never released: the call must return its deadline's error, not before
//	          0.8 d and not after 2 d;
//	cancel    (WaitCTX) one Inc, never released; the context carries a deadline 10 d away and is
//	          cancelled by its owner at d/2: the context's error right then (within [0.4 d, 2 d]);
//	rearm     one Inc, then release + re-arm cycles at 0.5 d, 1.0 d, 1.5 d, ...: Dec (count 0, the
//	          wait channel is closed, the waiter's select wakes), the waiter is HELD at its next
//	          yield point - the instrumented code calls the hook before every shared-memory
//	          operation, e.g. before a re-check of Count() - until the driver has done the Inc
//	          that re-arms the group, then it goes on.  Whatever the call answers, it must answer
//	          within 2 d: a deadline is an absolute time fixed at the call (WGTimed.v: the k of
//	          [TW0 k] only ever counts down).  An implementation that restarts its timer when it
//	          finds the group re-armed returns only after (last re-arm + d).
//
// The bounds are generous (d = 300 ms, limit 2 d) and a measurement that violates them by less than
// another d is repeated twice; the smallest elapsed time is written (on a machine with a load of 150-200 a 5 ms timer has been seen to take
// 400 ms).  Cases are written as Gallina terms of WGJudge.dl_case and judged there.
package main

import (
	"bytes"
	"context"
	"fmt"
	"runtime"
	"strconv"
	"sync"
	"sync/atomic"
	"time"

	"github.com/drshriveer/gtools/gsync"

	"gtverif/internal/gal"
)

type dlCycle struct {
	AtMs   int  `json:"at_ms"`   // when the Dec was issued, since the call
	Held   bool `json:"held"`    // the waiter was held at a yield point between Dec and Inc
	HeldAt int  `json:"held_at"` // site it was held at
}

type dlCase struct {
	API       string    `json:"api"`      // WaitTimeout | WaitCTX
	Scenario  string    `json:"scenario"` // zero | positive | rearm
	DMs       int       `json:"d_ms"`
	ElapsedMs int       `json:"elapsed_ms"`
	Result    int       `json:"result"` // 0 nil, 1 the deadline's error, 2 no answer within 5 d
	Cycles    []dlCycle `json:"cycles"`
	Attempts  int       `json:"attempts"`
	FirstAtPc int       `json:"first_cycle_percent"`
}

func goid() int64 {
	var buf [64]byte
	n := runtime.Stack(buf[:], false)
	f := bytes.Fields(buf[:n])
	if len(f) < 2 {
		return -1
	}
	id, _ := strconv.ParseInt(string(f[1]), 10, 64)
	return id
}

// dlProbe is the state shared by the hook (called on the waiter's goroutine) and the driver.
type dlProbe struct {
	waiter   atomic.Int64 // goroutine id of the waiter
	yields   atomic.Int64 // yields made by the waiter
	lastSite atomic.Int64
	hold     atomic.Bool // hold the waiter at its next yield
	mu       sync.Mutex
	held     chan int      // the hook reports the site it is held at
	release  chan struct{} // the driver lets it go
}

func (p *dlProbe) hook(site int) {
	if goid() != p.waiter.Load() {
		return
	}
	p.yields.Add(1)
	p.lastSite.Store(int64(site))
	if p.hold.CompareAndSwap(true, false) {
		p.held <- site
		<-p.release
	}
}

func ms(d time.Duration) int { return int(d / time.Millisecond) }

// runDeadline makes one measurement.
func runDeadline(api, scenario string, d time.Duration, firstPc int) dlCase {
	c := dlCase{API: api, Scenario: scenario, DMs: ms(d), FirstAtPc: firstPc}
	wg := gsync.NewSelectableWaitGroup()
	p := &dlProbe{held: make(chan int), release: make(chan struct{})}
	gsync.VerifYield = p.hook
	defer func() { gsync.VerifYield = func(int) {} }()
	if scenario != "zero" {
		wg.Inc()
	}
	done := make(chan int, 1)
	started := make(chan struct{})
	var t0 time.Time
	go func() {
		p.waiter.Store(goid())
		t0 = time.Now()
		close(started)
		var err error
		if api == "WaitTimeout" {
			err = wg.WaitTimeout(d)
		} else if scenario == "cancel" {
			// a context that carries a (far) deadline and is cancelled early by its owner
			ctx, cancel := context.WithTimeout(context.Background(), 10*d)
			defer cancel()
			time.AfterFunc(d/2, cancel)
			err = wg.WaitCTX(ctx)
		} else {
			ctx, cancel := context.WithTimeout(context.Background(), d)
			defer cancel()
			err = wg.WaitCTX(ctx)
		}
		if err == nil {
			done <- 0
		} else {
			done <- 1
		}
	}()
	<-started
	finish := func(r int) dlCase {
		c.Result, c.ElapsedMs = r, ms(time.Since(t0))
		return c
	}
	limit := time.After(5 * d)
	if scenario != "rearm" {
		select {
		case r := <-done:
			return finish(r)
		case <-limit:
			return finish(2)
		}
	}
	// release + re-arm cycles
	next := time.Duration(firstPc) * d / 100
	for {
		select {
		case r := <-done:
			return finish(r)
		case <-limit:
			return finish(2)
		case <-time.After(time.Until(t0.Add(next))):
		}
		if time.Since(t0) > 5*d/2 {
			// no more cycles after 2.5 d: a call that restarts its timer at every re-arm now
			// answers about one d after the last of them
			select {
			case r := <-done:
				return finish(r)
			case <-limit:
				return finish(2)
			}
		}
		cy := dlCycle{AtMs: ms(time.Since(t0))}
		p.hold.Store(true)
		wg.Dec() // count 0: the wait channel is closed, the waiter's select wakes
		select {
		case s := <-p.held:
			cy.Held, cy.HeldAt = true, s
			wg.Inc() // the group is in use again before the waiter looks at it
			p.release <- struct{}{}
		case r := <-done:
			p.hold.Store(false)
			c.Cycles = append(c.Cycles, cy)
			return finish(r)
		case <-time.After(d / 6):
			// the waiter made no yield (not instrumented, or it is elsewhere): re-arm anyway
			if !p.hold.CompareAndSwap(true, false) {
				// it arrived just now
				s := <-p.held
				cy.Held, cy.HeldAt = true, s
				wg.Inc()
				p.release <- struct{}{}
			} else {
				wg.Inc()
			}
		}
		c.Cycles = append(c.Cycles, cy)
		next += d / 2
	}
}

func dlViolates(c dlCase) bool {
	switch c.Scenario {
	case "zero":
		return c.Result != 0 || 10*c.ElapsedMs > 7*c.DMs
	case "positive":
		return c.Result != 1 || 10*c.ElapsedMs < 8*c.DMs || c.ElapsedMs > 2*c.DMs
	case "cancel":
		return c.Result != 1 || 10*c.ElapsedMs < 4*c.DMs || c.ElapsedMs > 2*c.DMs
	default:
		return c.Result == 2 || c.ElapsedMs > 2*c.DMs
	}
}

func gDl(c dlCase) string {
	api := 0
	if c.API == "WaitCTX" {
		api = 1
	}
	sc := map[string]int{"zero": 0, "positive": 1, "rearm": 2, "cancel": 3}[c.Scenario]
	held := 0
	for _, cy := range c.Cycles {
		if cy.Held {
			held++
		}
	}
	return fmt.Sprintf("DlCase %d %d %d %d %d %d %d", api, sc, c.DMs, c.ElapsedMs, c.Result, len(c.Cycles), held)
}

func deadlineMode(outp string, dMs int) {
	out := gal.NewOut(outp)
	defer out.Close()
	d := time.Duration(dMs) * time.Millisecond
	type sc struct {
		name string
		pc   int
	}
	for _, api := range []string{"WaitTimeout", "WaitCTX"} {
		for _, s := range []sc{{"zero", 0}, {"positive", 0}, {"rearm", 50}, {"rearm", 25}, {"rearm", 85}, {"cancel", 0}} {
			if s.name == "cancel" && api != "WaitCTX" {
				continue
			}
			best := runDeadline(api, s.name, d, s.pc)
			best.Attempts = 1
			// a measurement between 2 d and 3 d may be the machine, not the code: measured again
			for a := 2; a <= 3 && dlViolates(best) && (s.name != "rearm" || best.ElapsedMs <= 3*best.DMs); a++ {
				c := runDeadline(api, s.name, d, s.pc)
				c.Attempts = a
				if !dlViolates(c) || c.ElapsedMs < best.ElapsedMs {
					best = c
				} else {
					best.Attempts = a
				}
			}
			out.Case(gDl(best), best)
		}
	}
	fmt.Printf("DEADLINE cases %d\n", out.N)
}
