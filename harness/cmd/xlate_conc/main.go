// xlate_conc — reads a Go source file with lock-free / mutex code and produces
//
//	-instr OUT.go   the same file with a call `verifYield(site)` inserted before every
//	                statement (or condition) that contains a shared-memory operation:
//	                a method call on a field of a sync/atomic or sync.(RW)Mutex type, close(),
//	                a channel send/receive/select.  A blocking x.Lock() / x.RLock() statement
//	                becomes `verifYield(s); for !x.TryLock() { verifYield(s) }` (a goroutine
//	                that cannot take the lock burns scheduler steps instead of blocking, so
//	                the scheduler needs no notion of blocking; the internal steps of Lock are
//	                not atomic in reality either, so every such schedule is a real one);
//	                `defer x.Unlock()` becomes a deferred closure that yields first.
//	                The package must provide
//	                verifYield(int) and verifYieldB(int) bool (see props/wg_lib.py, which adds
//	                them to the scratch copy only).
//	-ir OUT.v       a Gallina term of type GT.Base.ConcIR.prog: for the functions named by
//	                -funcs the body re-stated statement by statement in the IR of ConcIR.v
//	                (expressions, definitions, assignments, close, if/else, `for { }`, return;
//	                anything else becomes EUnknown / SOther, which denote "stuck"); local
//	                identifiers are renamed v0,v1,.. in order of first binding (receiver = recv)
//	                so that a rename of a local does not change the term.  ConcIR.v gives the
//	                term a small-step denotation; the check compiles gen_prog = hand_prog.
//
// Both outputs come from the same walk, so the site ids of the instrumented code and of the IR
// coincide: site = 100*code(function) + index of the site inside the function (source order);
// codes are given by -codes (functions not listed get 10, 11, .. in source order).
//
// Only the standard library is used (go/parser, go/ast, go/printer, go/token).
package main

import (
	"bytes"
	"flag"
	"fmt"
	"go/ast"
	"go/parser"
	"go/printer"
	"go/token"
	"os"
	"sort"
	"strconv"
	"strings"
)

func gstr(s string) string { return "\"" + strings.ReplaceAll(s, "\"", "\"\"") + "\"" }

var atomicMethods = map[string]string{
	"Load": "ALoad", "Store": "AStore", "Swap": "ASwap", "CompareAndSwap": "ACAS", "Add": "AAdd",
	"And": "AAnd", "Or": "AOr",
}
var mutexMethods = map[string]string{
	"Lock": "ALock", "Unlock": "AUnlock", "RLock": "ARLock", "RUnlock": "ARUnlock", "TryLock": "ATryLock",
}
var convNames = map[string]bool{
	"int": true, "int8": true, "int16": true, "int32": true, "int64": true,
	"uint": true, "uint8": true, "uint16": true, "uint32": true, "uint64": true, "uintptr": true,
}
var binops = map[token.Token]string{
	token.ADD: "BAdd", token.SUB: "BSub", token.EQL: "BEq", token.NEQ: "BNe", token.LSS: "BLt",
	token.LEQ: "BLe", token.GTR: "BGt", token.GEQ: "BGe", token.LAND: "BAnd", token.LOR: "BOr",
}

type xl struct {
	fset        *token.FileSet
	atomicField map[string]bool // field name -> is sync/atomic typed
	mutexField  map[string]bool
	recv        string
	fnCode      int
	nsite       int
	rename      map[string]string
	errs        []string
	siteOps     map[int][]string // site -> shared-memory operations performed at it ("ACAS:state", "close", ..)
	siteFunc    map[int]string   // site -> function containing it
	curFunc     string
	siteAt      map[int]int // file offset of the sited statement / condition -> site (for -ir2)
}

func isAtomicType(e ast.Expr) bool {
	switch t := e.(type) {
	case *ast.SelectorExpr:
		if id, ok := t.X.(*ast.Ident); ok && id.Name == "atomic" {
			return true
		}
	case *ast.IndexExpr:
		return isAtomicType(t.X)
	case *ast.IndexListExpr:
		return isAtomicType(t.X)
	}
	return false
}

func isMutexType(e ast.Expr) bool {
	if t, ok := e.(*ast.SelectorExpr); ok {
		if id, ok := t.X.(*ast.Ident); ok && id.Name == "sync" {
			return t.Sel.Name == "Mutex" || t.Sel.Name == "RWMutex"
		}
	}
	return false
}

func (x *xl) collectFields(f *ast.File) {
	ast.Inspect(f, func(n ast.Node) bool {
		st, ok := n.(*ast.StructType)
		if !ok {
			return true
		}
		for _, fl := range st.Fields.List {
			for _, nm := range fl.Names {
				if isAtomicType(fl.Type) {
					x.atomicField[nm.Name] = true
				}
				if isMutexType(fl.Type) {
					x.mutexField[nm.Name] = true
				}
			}
		}
		return true
	})
}

// sharedOp reports whether the call is an atomic / mutex method on a field of such a type.
func (x *xl) sharedOp(e *ast.CallExpr) (kind, field string, ok bool) {
	sel, isSel := e.Fun.(*ast.SelectorExpr)
	if !isSel {
		return "", "", false
	}
	inner, isInner := sel.X.(*ast.SelectorExpr)
	if !isInner {
		return "", "", false
	}
	if k, found := atomicMethods[sel.Sel.Name]; found && x.atomicField[inner.Sel.Name] {
		return k, inner.Sel.Name, true
	}
	if k, found := mutexMethods[sel.Sel.Name]; found && x.mutexField[inner.Sel.Name] {
		return k, inner.Sel.Name, true
	}
	return "", "", false
}

// needsSite: does the node contain a shared-memory operation (atomic/mutex method, close,
// channel send/receive)?  Function literals are not entered (an operation inside one is an
// error).
func (x *xl) needsSite(n ast.Node) bool {
	if n == nil {
		return false
	}
	found := false
	ast.Inspect(n, func(m ast.Node) bool {
		switch e := m.(type) {
		case *ast.FuncLit:
			if x.needsSite(e.Body) {
				x.errs = append(x.errs, fmt.Sprintf("%s: shared-memory operation inside a function literal", x.fset.Position(e.Pos())))
			}
			return false
		case *ast.CallExpr:
			if id, ok := e.Fun.(*ast.Ident); ok && id.Name == "close" {
				found = true
			}
			if _, _, ok := x.sharedOp(e); ok {
				found = true
			}
		case *ast.UnaryExpr:
			if e.Op == token.ARROW {
				found = true
			}
		case *ast.SendStmt:
			found = true
		}
		return true
	})
	return found
}

// opsOf lists the shared-memory operations inside a node (function literals are not entered).
func (x *xl) opsOf(n ast.Node) []string {
	var ops []string
	if n == nil {
		return ops
	}
	ast.Inspect(n, func(m ast.Node) bool {
		switch e := m.(type) {
		case *ast.FuncLit:
			return false
		case *ast.CallExpr:
			if id, ok := e.Fun.(*ast.Ident); ok && id.Name == "close" {
				ops = append(ops, "close")
			}
			if k, f, ok := x.sharedOp(e); ok {
				ops = append(ops, k+":"+f)
			}
		case *ast.UnaryExpr:
			if e.Op == token.ARROW {
				ops = append(ops, "recv")
			}
		case *ast.SendStmt:
			ops = append(ops, "send")
		case *ast.SelectStmt:
			ops = append(ops, "select")
		}
		return true
	})
	return ops
}

// newSite allocates the next site of the current function; n is the statement / condition the
// yield is put in front of (its operations go to the site table written by -sites).
func (x *xl) newSite(n ast.Node) int {
	s := x.fnCode*100 + x.nsite
	x.nsite++
	if x.siteOps != nil {
		x.siteOps[s] = x.opsOf(n)
		x.siteFunc[s] = x.curFunc
	}
	if x.siteAt != nil && n != nil && n.Pos().IsValid() {
		x.siteAt[x.fset.Position(n.Pos()).Offset] = s
	}
	return s
}

func yieldStmt(site int) ast.Stmt {
	return &ast.ExprStmt{X: &ast.CallExpr{Fun: ast.NewIdent("verifYield"),
		Args: []ast.Expr{&ast.BasicLit{Kind: token.INT, Value: strconv.Itoa(site)}}}}
}

func yieldCond(site int, cond ast.Expr) ast.Expr {
	y := &ast.CallExpr{Fun: ast.NewIdent("verifYieldB"),
		Args: []ast.Expr{&ast.BasicLit{Kind: token.INT, Value: strconv.Itoa(site)}}}
	if cond == nil {
		return y
	}
	return &ast.BinaryExpr{X: y, Op: token.LAND, Y: &ast.ParenExpr{X: cond}}
}

func (x *xl) src(n ast.Node) string {
	if n == nil {
		return ""
	}
	var buf bytes.Buffer
	_ = printer.Fprint(&buf, x.fset, n)
	return strings.Join(strings.Fields(buf.String()), " ")
}

func (x *xl) bind(names ...*ast.Ident) {
	for _, id := range names {
		if id == nil || id.Name == "_" {
			continue
		}
		if _, ok := x.rename[id.Name]; !ok {
			x.rename[id.Name] = "v" + strconv.Itoa(len(x.rename))
		}
	}
}

func gsite(site int) string {
	if site < 0 {
		return "None"
	}
	return "(Some " + strconv.Itoa(site) + ")"
}

func glist(items []string) string { return "[" + strings.Join(items, ";\n ") + "]" }

func gz(s string) string {
	if strings.HasPrefix(s, "-") {
		return "(" + s + ")%Z"
	}
	return s + "%Z"
}

// expr renders an expression in the IR.
func (x *xl) expr(e ast.Expr) string {
	switch t := e.(type) {
	case nil:
		return "(EUnknown \"\")"
	case *ast.ParenExpr:
		return x.expr(t.X)
	case *ast.Ident:
		if r, ok := x.rename[t.Name]; ok {
			return "(EVar " + gstr(r) + ")"
		}
		switch t.Name {
		case "true", "false", "nil", "iota":
			return "(EUnknown " + gstr(t.Name) + ")"
		}
		return "(EGlobal " + gstr(t.Name) + ")"
	case *ast.BasicLit:
		if t.Kind == token.INT {
			if _, err := strconv.ParseInt(t.Value, 0, 64); err == nil {
				v, _ := strconv.ParseInt(t.Value, 0, 64)
				return "(EInt " + gz(strconv.FormatInt(v, 10)) + ")"
			}
		}
		return "(EUnknown " + gstr(t.Value) + ")"
	case *ast.UnaryExpr:
		switch t.Op {
		case token.AND:
			if cl, ok := t.X.(*ast.CompositeLit); ok {
				return x.newStruct(cl)
			}
			return "(EAddr " + x.expr(t.X) + ")"
		case token.NOT:
			return "(ENot " + x.expr(t.X) + ")"
		case token.SUB:
			if bl, ok := t.X.(*ast.BasicLit); ok && bl.Kind == token.INT {
				if v, err := strconv.ParseInt(bl.Value, 0, 64); err == nil {
					return "(EInt " + gz(strconv.FormatInt(-v, 10)) + ")"
				}
			}
			return "(EBin BSub (EInt 0%Z) " + x.expr(t.X) + ")"
		}
		return "(EUnknown " + gstr(x.src(t)) + ")"
	case *ast.StarExpr:
		return "(EDeref " + x.expr(t.X) + ")"
	case *ast.BinaryExpr:
		if o, ok := binops[t.Op]; ok {
			return "(EBin " + o + " " + x.expr(t.X) + " " + x.expr(t.Y) + ")"
		}
		return "(EUnknown " + gstr(x.src(t)) + ")"
	case *ast.SelectorExpr:
		if id, ok := t.X.(*ast.Ident); ok {
			if _, local := x.rename[id.Name]; !local || id.Name == x.recv {
				// a package-qualified name or a plain (non-atomic) read of a receiver field
				return "(EUnknown " + gstr(x.src(t)) + ")"
			}
		}
		return "(EField " + x.expr(t.X) + " " + gstr(t.Sel.Name) + ")"
	case *ast.CallExpr:
		if k, f, ok := x.sharedOp(t); ok {
			args := make([]string, len(t.Args))
			for i, a := range t.Args {
				args[i] = x.expr(a)
			}
			return "(EAtomic " + k + " " + gstr(f) + " [" + strings.Join(args, "; ") + "])"
		}
		if id, ok := t.Fun.(*ast.Ident); ok {
			if convNames[id.Name] && len(t.Args) == 1 {
				return "(EConv " + x.expr(t.Args[0]) + ")"
			}
			if id.Name == "make" && len(t.Args) >= 1 {
				if _, ok := t.Args[0].(*ast.ChanType); ok {
					return "EMake"
				}
			}
		}
		return "(EUnknown " + gstr(x.src(t)) + ")"
	}
	return "(EUnknown " + gstr(x.src(e)) + ")"
}

func (x *xl) newStruct(cl *ast.CompositeLit) string {
	ty := x.src(cl.Type)
	var fs []string
	for _, el := range cl.Elts {
		kv, ok := el.(*ast.KeyValueExpr)
		if !ok {
			return "(EUnknown " + gstr(x.src(cl)) + ")"
		}
		k, ok := kv.Key.(*ast.Ident)
		if !ok {
			return "(EUnknown " + gstr(x.src(cl)) + ")"
		}
		fs = append(fs, "("+gstr(k.Name)+", "+x.expr(kv.Value)+")")
	}
	return "(ENew " + gstr(ty) + " [" + strings.Join(fs, "; ") + "])"
}

// block walks a statement list: returns the instrumented list and the IR terms.
func (x *xl) block(list []ast.Stmt) ([]ast.Stmt, []string) {
	var out []ast.Stmt
	var ir []string
	for _, s := range list {
		ns, pre, terms := x.stmt(s, false)
		out = append(out, pre...)
		out = append(out, ns)
		ir = append(ir, terms...)
	}
	return out, ir
}

// sited allocates a site for a statement containing a shared-memory operation and returns
// the yield statement to put before it.
func (x *xl) sited(n ast.Node, inElse bool, what string) (int, []ast.Stmt) {
	if !x.needsSite(n) {
		return -1, nil
	}
	site := x.newSite(n)
	if inElse {
		x.errs = append(x.errs, fmt.Sprintf("%s: %s with an operation in else-if position", x.fset.Position(n.Pos()), what))
	}
	return site, []ast.Stmt{yieldStmt(site)}
}

// stmt handles one statement.  inElse = the statement is the `else if` of an if chain (no
// statement can be inserted before it).  Returns the rewritten statement, statements to put
// before it, and its IR terms.
func (x *xl) stmt(s ast.Stmt, inElse bool) (ast.Stmt, []ast.Stmt, []string) {
	other := func(site int, n ast.Node) []string {
		return []string{"SOther " + gsite(site) + " " + gstr(x.src(n))}
	}
	switch t := s.(type) {
	case *ast.BlockStmt:
		// a bare block: flattened (scoping of its locals is not modelled)
		l, ir := x.block(t.List)
		t.List = l
		return t, nil, ir
	case *ast.LabeledStmt:
		ns, pre, ir := x.stmt(t.Stmt, false)
		t.Stmt = ns
		return t, pre, ir
	case *ast.IfStmt:
		// `else if init; cond {..}` with a shared-memory operation: no statement can be put in
		// front of an else-if, but `else { if init; cond {..} }` is the same program
		if ei, ok := t.Else.(*ast.IfStmt); ok && (ei.Init != nil && x.needsSite(ei.Init)) {
			t.Else = &ast.BlockStmt{List: []ast.Stmt{ei}}
		}
		if t.Init != nil {
			site, pre := x.sited(t, inElse, "if with init")
			text := other(site, t)
			body, _ := x.block(t.Body.List)
			t.Body.List = body
			if t.Else != nil {
				ne, _, _ := x.stmt(t.Else, true)
				t.Else = ne
			}
			return t, pre, text
		}
		cond := x.expr(t.Cond)
		site := -1
		var pre []ast.Stmt
		if x.needsSite(t.Cond) {
			site = x.newSite(t.Cond)
			if !inElse {
				pre = append(pre, yieldStmt(site))
			} else {
				t.Cond = yieldCond(site, t.Cond)
			}
		}
		body, irThen := x.block(t.Body.List)
		t.Body.List = body
		var irElse []string
		if t.Else != nil {
			ne, _, ire := x.stmt(t.Else, true)
			t.Else = ne
			irElse = ire
		}
		term := "SIf " + gsite(site) + " " + cond + "\n (" + glist(irThen) + ")\n (" + glist(irElse) + ")"
		return t, pre, []string{term}
	case *ast.ForStmt:
		if t.Init == nil && t.Cond == nil && t.Post == nil {
			body, irBody := x.block(t.Body.List)
			t.Body.List = body
			return t, nil, []string{"SLoop\n (" + glist(irBody) + ")"}
		}
		if x.needsSite(t.Init) || x.needsSite(t.Post) {
			x.errs = append(x.errs, fmt.Sprintf("%s: operation in a for-init/post statement", x.fset.Position(t.Pos())))
		}
		site := -1
		text := x.src(t)
		if x.needsSite(t.Cond) {
			site = x.newSite(t.Cond)
			t.Cond = yieldCond(site, t.Cond)
		}
		body, _ := x.block(t.Body.List)
		t.Body.List = body
		return t, nil, []string{"SOther " + gsite(site) + " " + gstr(text)}
	case *ast.RangeStmt:
		if x.needsSite(t.X) {
			x.errs = append(x.errs, fmt.Sprintf("%s: operation in a range expression", x.fset.Position(t.Pos())))
		}
		text := x.src(t)
		body, _ := x.block(t.Body.List)
		t.Body.List = body
		return t, nil, []string{"SOther None " + gstr(text)}
	case *ast.SwitchStmt, *ast.TypeSwitchStmt:
		text := x.src(t)
		site := -1
		var pre []ast.Stmt
		if sw, ok := t.(*ast.SwitchStmt); ok {
			hdr := x.needsSite(sw.Init) || x.needsSite(sw.Tag)
			if hdr {
				var hdrNodes []ast.Stmt
				if sw.Init != nil {
					hdrNodes = append(hdrNodes, sw.Init)
				}
				if sw.Tag != nil {
					hdrNodes = append(hdrNodes, &ast.ExprStmt{X: sw.Tag})
				}
				site = x.newSite(&ast.BlockStmt{List: hdrNodes})
				if x.siteAt != nil {
					x.siteAt[x.fset.Position(sw.Pos()).Offset] = site
				}
				if inElse {
					x.errs = append(x.errs, fmt.Sprintf("%s: unsupported position of a switch with operations", x.fset.Position(t.Pos())))
				}
				pre = append(pre, yieldStmt(site))
			}
			for _, c := range sw.Body.List {
				cc := c.(*ast.CaseClause)
				for _, e := range cc.List {
					if x.needsSite(e) {
						x.errs = append(x.errs, fmt.Sprintf("%s: operation in a case expression", x.fset.Position(e.Pos())))
					}
				}
				body, _ := x.block(cc.Body)
				cc.Body = body
			}
		}
		return t, pre, []string{"SOther " + gsite(site) + " " + gstr(text)}
	case *ast.SelectStmt:
		text := x.src(t)
		site := x.newSite(t)
		if inElse {
			x.errs = append(x.errs, fmt.Sprintf("%s: unsupported position of a select", x.fset.Position(t.Pos())))
		}
		for _, c := range t.Body.List {
			cc := c.(*ast.CommClause)
			body, _ := x.block(cc.Body)
			cc.Body = body
		}
		return t, []ast.Stmt{yieldStmt(site)}, []string{"SOther " + gsite(site) + " " + gstr(text)}
	case *ast.ReturnStmt:
		site, pre := x.sited(t, inElse, "return")
		if len(t.Results) == 1 {
			return t, pre, []string{"SReturn " + gsite(site) + " " + x.expr(t.Results[0])}
		}
		return t, pre, other(site, t)
	case *ast.DeferStmt:
		if x.needsSite(t.Call) {
			// the deferred operation runs at function exit: wrap it so that it yields first
			site := x.newSite(t.Call)
			if x.siteAt != nil {
				x.siteAt[x.fset.Position(t.Pos()).Offset] = site
			}
			text := other(site, t)
			call := t.Call
			t.Call = &ast.CallExpr{Fun: &ast.FuncLit{
				Type: &ast.FuncType{Params: &ast.FieldList{}},
				Body: &ast.BlockStmt{List: []ast.Stmt{yieldStmt(site), &ast.ExprStmt{X: call}}},
			}}
			return t, nil, text
		}
		return t, nil, other(-1, t)
	case *ast.GoStmt:
		if x.needsSite(t.Call) {
			x.errs = append(x.errs, fmt.Sprintf("%s: go statement with operations", x.fset.Position(t.Pos())))
		}
		return t, nil, other(-1, t)
	case *ast.AssignStmt:
		site, pre := x.sited(t, inElse, "assignment")
		if len(t.Lhs) == 1 && len(t.Rhs) == 1 {
			rhs := x.expr(t.Rhs[0]) // rendered before the left-hand side is bound
			switch t.Tok {
			case token.DEFINE:
				if id, ok := t.Lhs[0].(*ast.Ident); ok && id.Name != "_" {
					x.bind(id)
					return t, pre, []string{"SDefine " + gsite(site) + " " + gstr(x.rename[id.Name]) + " " + rhs}
				}
			case token.ASSIGN:
				switch l := t.Lhs[0].(type) {
				case *ast.Ident:
					if r, ok := x.rename[l.Name]; ok {
						return t, pre, []string{"SAssign " + gsite(site) + " (LVar " + gstr(r) + ") " + rhs}
					}
				case *ast.SelectorExpr:
					if id, ok := l.X.(*ast.Ident); ok && id.Name != x.recv {
						if r, ok := x.rename[id.Name]; ok {
							return t, pre, []string{"SAssign " + gsite(site) + " (LField " + gstr(r) + " " + gstr(l.Sel.Name) + ") " + rhs}
						}
					}
				}
			}
		}
		text := other(site, t)
		if t.Tok == token.DEFINE {
			for _, l := range t.Lhs {
				if id, ok := l.(*ast.Ident); ok {
					x.bind(id)
				}
			}
		}
		return t, pre, text
	case *ast.DeclStmt:
		text := other(-1, t)
		if gd, ok := t.Decl.(*ast.GenDecl); ok {
			for _, sp := range gd.Specs {
				if vs, ok := sp.(*ast.ValueSpec); ok {
					if x.needsSite(vs) {
						x.errs = append(x.errs, fmt.Sprintf("%s: operation in a var declaration", x.fset.Position(t.Pos())))
					}
					x.bind(vs.Names...)
				}
			}
		}
		return t, nil, text
	case *ast.ExprStmt:
		site, pre := x.sited(t, inElse, "expression statement")
		if call, ok := t.X.(*ast.CallExpr); ok {
			if k, _, isOp := x.sharedOp(call); isOp && (k == "ALock" || k == "ARLock") {
				// blocking acquisition -> yield-spin on the Try variant
				term := "SExpr " + gsite(site) + " " + x.expr(t.X)
				sel := call.Fun.(*ast.SelectorExpr)
				try := "TryLock"
				if k == "ARLock" {
					try = "TryRLock"
				}
				tryCall := &ast.CallExpr{Fun: &ast.SelectorExpr{X: sel.X, Sel: ast.NewIdent(try)}}
				loop := &ast.ForStmt{
					Cond: &ast.UnaryExpr{Op: token.NOT, X: tryCall},
					Body: &ast.BlockStmt{List: []ast.Stmt{yieldStmt(site)}},
				}
				return loop, pre, []string{term}
			}
			if id, ok := call.Fun.(*ast.Ident); ok && id.Name == "close" && len(call.Args) == 1 {
				return t, pre, []string{"SClose " + gsite(site) + " " + x.expr(call.Args[0])}
			}
		}
		return t, pre, []string{"SExpr " + gsite(site) + " " + x.expr(t.X)}
	case *ast.EmptyStmt:
		return t, nil, nil
	default:
		site, pre := x.sited(s, inElse, "statement")
		return s, pre, other(site, s)
	}
}

func main() {
	src := flag.String("src", "", "Go source file")
	instr := flag.String("instr", "", "write the instrumented source here")
	ir := flag.String("ir", "", "write the Gallina IR here")
	funcs := flag.String("funcs", "Add,Wait,Count", "functions listed in the IR, in this order")
	codes := flag.String("codes", "Add=1,Wait=2,Count=3", "site codes of functions")
	name := flag.String("name", "gen_prog", "name of the generated definition")
	sitesOut := flag.String("sites", "", "write the site table (JSON: site -> function, operations) here")
	ir2Out := flag.String("ir2", "", "write the second IR (Base/ConcIR2.v terms: gen_prog2, gen_sitemap) here")
	sitemapOut := flag.String("sitemap", "", "write the canonical site table of -ir2 (JSON: function -> site -> canonical site) here")
	wrapperFns := flag.String("wrappers", "", "-ir2: further functions re-stated as gen_wrappers (Inc,Dec)")
	mergeDir := flag.String("mergepkg", "", "write the files of this package directory that match the build context as ONE file (-merge) and exit")
	mergeOut := flag.String("merge", "", "output of -mergepkg")
	mergeTags := flag.String("tags", "verif", "-mergepkg: build tags of the harness build, comma separated")
	timedFns := flag.String("timed", "", "-ir2: functions summarised as deadline selects (gen_timed : list WGTimed.timed_shape)")
	flag.Parse()
	if *mergeDir != "" {
		if err := mergePkg(*mergeDir, *mergeOut, strings.Split(*mergeTags, ",")); err != nil {
			fmt.Fprintln(os.Stderr, "xlate_conc -mergepkg:", err)
			os.Exit(4)
		}
		return
	}
	fset := token.NewFileSet()
	srcBytes, err := os.ReadFile(*src)
	if err != nil {
		fmt.Fprintln(os.Stderr, err)
		os.Exit(1)
	}
	f, err := parser.ParseFile(fset, *src, srcBytes, parser.ParseComments)
	if err != nil {
		fmt.Fprintln(os.Stderr, err)
		os.Exit(1)
	}
	codeOf := map[string]int{}
	for _, kv := range strings.Split(*codes, ",") {
		p := strings.SplitN(kv, "=", 2)
		if len(p) == 2 {
			n, _ := strconv.Atoi(p[1])
			codeOf[p[0]] = n
		}
	}
	x := &xl{fset: fset, atomicField: map[string]bool{}, mutexField: map[string]bool{}}
	if *sitesOut != "" {
		x.siteOps, x.siteFunc = map[int][]string{}, map[int]string{}
	}
	if *ir2Out != "" {
		x.siteAt = map[int]int{}
		if x.siteOps == nil {
			x.siteOps, x.siteFunc = map[int][]string{}, map[int]string{}
		}
	}
	x.collectFields(f)
	irOf := map[string]string{}
	next := 10
	for _, d := range f.Decls {
		fd, ok := d.(*ast.FuncDecl)
		if !ok || fd.Body == nil {
			continue
		}
		code, ok := codeOf[fd.Name.Name]
		if !ok || fd.Recv == nil {
			code = next
			next++
		}
		x.fnCode, x.nsite = code, 0
		x.curFunc = fd.Name.Name
		x.rename = map[string]string{}
		x.recv = ""
		if fd.Recv != nil && len(fd.Recv.List) > 0 && len(fd.Recv.List[0].Names) > 0 {
			x.recv = fd.Recv.List[0].Names[0].Name
			x.rename[x.recv] = "recv"
		}
		var params []string
		if fd.Type.Params != nil {
			for _, p := range fd.Type.Params.List {
				x.bind(p.Names...)
				for _, n := range p.Names {
					params = append(params, gstr(x.rename[n.Name]))
				}
			}
		}
		body, terms := x.block(fd.Body.List)
		fd.Body.List = body
		key := fd.Name.Name
		if fd.Recv == nil {
			key = "func " + key
		}
		irOf[key] = "Func " + gstr(fd.Name.Name) + " [" + strings.Join(params, "; ") + "]\n " + glist(terms)
	}
	if len(x.errs) > 0 {
		for _, e := range x.errs {
			fmt.Fprintln(os.Stderr, "xlate_conc:", e)
		}
		os.Exit(3)
	}
	if *sitesOut != "" {
		var keys []int
		for k := range x.siteOps {
			keys = append(keys, k)
		}
		sort.Ints(keys)
		var b strings.Builder
		b.WriteString("{")
		for i, k := range keys {
			if i > 0 {
				b.WriteString(",")
			}
			ops := make([]string, len(x.siteOps[k]))
			for j, o := range x.siteOps[k] {
				ops[j] = strconv.Quote(o)
			}
			fmt.Fprintf(&b, "\n %q: {\"func\": %q, \"ops\": [%s]}", strconv.Itoa(k), x.siteFunc[k], strings.Join(ops, ", "))
		}
		b.WriteString("\n}\n")
		if err := os.WriteFile(*sitesOut, []byte(b.String()), 0o644); err != nil {
			fmt.Fprintln(os.Stderr, err)
			os.Exit(1)
		}
	}
	if *instr != "" {
		var buf bytes.Buffer
		buf.WriteString("// Code generated by xlate_conc (verification scratch copy only). DO NOT EDIT.\n")
		if err := printer.Fprint(&buf, fset, f); err != nil {
			fmt.Fprintln(os.Stderr, err)
			os.Exit(1)
		}
		if err := os.WriteFile(*instr, buf.Bytes(), 0o644); err != nil {
			fmt.Fprintln(os.Stderr, err)
			os.Exit(1)
		}
	}
	if *ir != "" {
		var b strings.Builder
		b.WriteString("(* generated by xlate_conc from " + *src + " - do not edit *)\n")
		b.WriteString("From Coq Require Import List String ZArith.\nFrom GT Require Import Base.ConcIR.\nImport ListNotations.\nLocal Open Scope string_scope.\n\n")
		b.WriteString("Definition " + *name + " : prog :=\n[")
		first := true
		for _, fn := range strings.Split(*funcs, ",") {
			t, ok := irOf[fn]
			if !ok {
				t = "Func " + gstr(fn) + " [] [SOther None \"missing\"]"
			}
			if !first {
				b.WriteString(";\n")
			}
			first = false
			b.WriteString(t)
		}
		b.WriteString("].\n")
		if err := os.WriteFile(*ir, []byte(b.String()), 0o644); err != nil {
			fmt.Fprintln(os.Stderr, err)
			os.Exit(1)
		}
	}
	if *ir2Out != "" {
		// a second, untouched parse of the same file: same offsets, no yields
		fset2 := token.NewFileSet()
		f2, err := parser.ParseFile(fset2, *src, srcBytes, parser.ParseComments)
		if err != nil {
			fmt.Fprintln(os.Stderr, err)
			os.Exit(1)
		}
		x.fset = fset2
		var timed []string
		if *timedFns != "" {
			timed = strings.Split(*timedFns, ",")
		}
		var wrappers []string
		if *wrapperFns != "" {
			wrappers = strings.Split(*wrapperFns, ",")
		}
		coq, sm := emitIR2(x, fset2, f2, x.siteAt, strings.Split(*funcs, ","), codeOf, *src, timed, wrappers)
		if err := os.WriteFile(*ir2Out, []byte(coq), 0o644); err != nil {
			fmt.Fprintln(os.Stderr, err)
			os.Exit(1)
		}
		if *sitemapOut != "" {
			if err := os.WriteFile(*sitemapOut, []byte(sm), 0o644); err != nil {
				fmt.Fprintln(os.Stderr, err)
				os.Exit(1)
			}
		}
	}
}
