// xlate_conc — reads a Go source file with lock-free / mutex code and produces
//
//	-instr OUT.go   the same file with a call `verifYield(site)` inserted before every
//	                statement (or condition) that contains a shared-memory operation:
//	                a method call on a field of a sync/atomic or sync.(RW)Mutex type, close(),
//	                a channel send/receive/select.  The package must provide
//	                verifYield(int) and verifYieldB(int) bool (see props/wg_lib.py, which adds
//	                them to the scratch copy only).
//	-ir OUT.v       a Gallina term (GT.Base.ConcIR) listing, for the functions named by -funcs,
//	                the shared-memory operations with the branch structure between them; local
//	                computation is dropped, local identifiers are renamed v0,v1,.. in order of
//	                first binding so that a rename of a local does not change the term.
//
// Both outputs come from the same walk, so the site ids of the instrumented code and of the IR
// coincide: site = 100*code(function) + index of the site inside the function (source order);
// codes are given by -codes (functions not listed get 10, 11, .. in source order).
//
// Only the standard library is used (go/parser, go/ast, go/printer, go/token).
package main

import (
	"bytes"
	"flag"
	"fmt"
	"go/ast"
	"go/parser"
	"go/printer"
	"go/token"
	"os"
	"sort"
	"strconv"
	"strings"
)

type opT struct {
	kind  string // Gallina constructor text
	field string
}

func (o opT) gallina() string {
	switch o.kind {
	case "OClose", "OMake", "ORecv", "OSend":
		return o.kind
	case "OCallM":
		return "OCallM " + gstr(o.field)
	default:
		return "OAtomic " + o.kind + " " + gstr(o.field)
	}
}

func gstr(s string) string { return "\"" + strings.ReplaceAll(s, "\"", "\"\"") + "\"" }

var atomicMethods = map[string]string{
	"Load": "ALoad", "Store": "AStore", "Swap": "ASwap", "CompareAndSwap": "ACAS", "Add": "AAdd",
	"And": "AAnd", "Or": "AOr",
}
var mutexMethods = map[string]string{
	"Lock": "ALock", "Unlock": "AUnlock", "RLock": "ARLock", "RUnlock": "ARUnlock", "TryLock": "ATryLock",
}

type xl struct {
	fset        *token.FileSet
	atomicField map[string]bool // field name -> is sync/atomic typed
	mutexField  map[string]bool
	methods     map[string]bool // method names declared in the file (OCallM)
	recv        string
	fnCode      int
	nsite       int
	rename      map[string]string
	errs        []string
}

func isAtomicType(e ast.Expr) bool {
	switch t := e.(type) {
	case *ast.SelectorExpr:
		if id, ok := t.X.(*ast.Ident); ok && id.Name == "atomic" {
			return true
		}
	case *ast.IndexExpr:
		return isAtomicType(t.X)
	case *ast.IndexListExpr:
		return isAtomicType(t.X)
	}
	return false
}

func isMutexType(e ast.Expr) bool {
	if t, ok := e.(*ast.SelectorExpr); ok {
		if id, ok := t.X.(*ast.Ident); ok && id.Name == "sync" {
			return t.Sel.Name == "Mutex" || t.Sel.Name == "RWMutex"
		}
	}
	return false
}

func (x *xl) collectFields(f *ast.File) {
	ast.Inspect(f, func(n ast.Node) bool {
		st, ok := n.(*ast.StructType)
		if !ok {
			return true
		}
		for _, fl := range st.Fields.List {
			for _, nm := range fl.Names {
				if isAtomicType(fl.Type) {
					x.atomicField[nm.Name] = true
				}
				if isMutexType(fl.Type) {
					x.mutexField[nm.Name] = true
				}
			}
		}
		return true
	})
	for _, d := range f.Decls {
		if fd, ok := d.(*ast.FuncDecl); ok && fd.Recv != nil {
			x.methods[fd.Name.Name] = true
		}
	}
}

// opsOf lists the shared-memory operations inside an expression / simple statement, in
// source order.  Function literals are not entered (an operation inside one is an error).
func (x *xl) opsOf(n ast.Node) []opT {
	var ops []opT
	if n == nil {
		return nil
	}
	type posOp struct {
		pos token.Pos
		op  opT
	}
	var found []posOp
	ast.Inspect(n, func(m ast.Node) bool {
		switch e := m.(type) {
		case *ast.FuncLit:
			if len(x.opsOf(e.Body)) > 0 {
				x.errs = append(x.errs, fmt.Sprintf("%s: shared-memory operation inside a function literal", x.fset.Position(e.Pos())))
			}
			return false
		case *ast.CallExpr:
			if id, ok := e.Fun.(*ast.Ident); ok {
				if id.Name == "close" {
					found = append(found, posOp{e.Pos(), opT{"OClose", ""}})
				}
				if id.Name == "make" && len(e.Args) > 0 {
					if _, ok := e.Args[0].(*ast.ChanType); ok {
						found = append(found, posOp{e.Pos(), opT{"OMake", ""}})
					}
				}
			}
			if sel, ok := e.Fun.(*ast.SelectorExpr); ok {
				// recv.field.Method(...)
				if inner, ok := sel.X.(*ast.SelectorExpr); ok {
					if k, ok := atomicMethods[sel.Sel.Name]; ok && x.atomicField[inner.Sel.Name] {
						found = append(found, posOp{e.Rparen, opT{k, inner.Sel.Name}})
					}
					if k, ok := mutexMethods[sel.Sel.Name]; ok && x.mutexField[inner.Sel.Name] {
						found = append(found, posOp{e.Rparen, opT{k, inner.Sel.Name}})
					}
				}
				// recv.Method(...) of the same type
				if id, ok := sel.X.(*ast.Ident); ok && id.Name == x.recv && x.recv != "" && x.methods[sel.Sel.Name] {
					found = append(found, posOp{e.Rparen, opT{"OCallM", sel.Sel.Name}})
				}
			}
		case *ast.UnaryExpr:
			if e.Op == token.ARROW {
				found = append(found, posOp{e.Pos(), opT{"ORecv", ""}})
			}
		case *ast.SendStmt:
			found = append(found, posOp{e.Arrow, opT{"OSend", ""}})
		}
		return true
	})
	sort.SliceStable(found, func(i, j int) bool { return found[i].pos < found[j].pos })
	for _, f := range found {
		ops = append(ops, f.op)
	}
	return ops
}

// a yield site is needed when the operations contain something other than make / method calls
func needsSite(ops []opT) bool {
	for _, o := range ops {
		if o.kind != "OMake" && o.kind != "OCallM" {
			return true
		}
	}
	return false
}

func (x *xl) newSite() int {
	s := x.fnCode*100 + x.nsite
	x.nsite++
	return s
}

func yieldStmt(site int) ast.Stmt {
	return &ast.ExprStmt{X: &ast.CallExpr{Fun: ast.NewIdent("verifYield"),
		Args: []ast.Expr{&ast.BasicLit{Kind: token.INT, Value: strconv.Itoa(site)}}}}
}

func yieldCond(site int, cond ast.Expr) ast.Expr {
	y := &ast.CallExpr{Fun: ast.NewIdent("verifYieldB"),
		Args: []ast.Expr{&ast.BasicLit{Kind: token.INT, Value: strconv.Itoa(site)}}}
	if cond == nil {
		return y
	}
	return &ast.BinaryExpr{X: y, Op: token.LAND, Y: &ast.ParenExpr{X: cond}}
}

// text renders a node with local identifiers renamed.
func (x *xl) text(n ast.Node) string {
	if n == nil {
		return ""
	}
	var buf bytes.Buffer
	_ = printer.Fprint(&buf, x.fset, n)
	src := buf.String()
	// re-parse as expression/statement is overkill: rename by token scan
	var out strings.Builder
	i := 0
	for i < len(src) {
		c := src[i]
		if c == '_' || (c >= 'a' && c <= 'z') || (c >= 'A' && c <= 'Z') {
			j := i
			for j < len(src) && (src[j] == '_' || (src[j] >= 'a' && src[j] <= 'z') || (src[j] >= 'A' && src[j] <= 'Z') || (src[j] >= '0' && src[j] <= '9')) {
				j++
			}
			w := src[i:j]
			prevDot := i > 0 && src[i-1] == '.'
			if r, ok := x.rename[w]; ok && !prevDot {
				// a composite-literal key `name:` is a field, not a local
				k := j
				for k < len(src) && src[k] == ' ' {
					k++
				}
				if k < len(src) && src[k] == ':' && (k+1 >= len(src) || src[k+1] != '=') {
					out.WriteString(w)
				} else {
					out.WriteString(r)
				}
			} else {
				out.WriteString(w)
			}
			i = j
			continue
		}
		if c == '"' || c == '`' { // string literal: copy verbatim
			j := i + 1
			for j < len(src) && src[j] != c {
				if src[j] == '\\' && c == '"' {
					j++
				}
				j++
			}
			if j < len(src) {
				j++
			}
			out.WriteString(src[i:j])
			i = j
			continue
		}
		out.WriteByte(c)
		i++
	}
	return strings.Join(strings.Fields(out.String()), " ")
}

func (x *xl) bind(names ...*ast.Ident) {
	for _, id := range names {
		if id == nil || id.Name == "_" {
			continue
		}
		if _, ok := x.rename[id.Name]; !ok {
			x.rename[id.Name] = "v" + strconv.Itoa(len(x.rename))
		}
	}
}

func (x *xl) bindStmt(s ast.Stmt) {
	switch t := s.(type) {
	case *ast.AssignStmt:
		if t.Tok == token.DEFINE {
			for _, l := range t.Lhs {
				if id, ok := l.(*ast.Ident); ok {
					x.bind(id)
				}
			}
		}
	case *ast.DeclStmt:
		if gd, ok := t.Decl.(*ast.GenDecl); ok {
			for _, sp := range gd.Specs {
				if vs, ok := sp.(*ast.ValueSpec); ok {
					x.bind(vs.Names...)
				}
			}
		}
	}
}

func gsite(site int) string {
	if site < 0 {
		return "None"
	}
	return "(Some " + strconv.Itoa(site) + ")"
}

func gops(ops []opT) string {
	parts := make([]string, len(ops))
	for i, o := range ops {
		parts[i] = o.gallina()
	}
	return "[" + strings.Join(parts, "; ") + "]"
}

func glist(items []string) string { return "[" + strings.Join(items, ";\n ") + "]" }

// block walks a statement list: returns the instrumented list and the IR terms.
func (x *xl) block(list []ast.Stmt) ([]ast.Stmt, []string) {
	var out []ast.Stmt
	var ir []string
	for _, s := range list {
		ns, pre, terms := x.stmt(s, false)
		out = append(out, pre...)
		out = append(out, ns)
		ir = append(ir, terms...)
	}
	return out, ir
}

// stmt handles one statement.  inElse = the statement is the `else if` of an if chain (no
// statement can be inserted before it).  Returns the rewritten statement, statements to put
// before it, and its IR terms (empty when it contains nothing of interest).
func (x *xl) stmt(s ast.Stmt, inElse bool) (ast.Stmt, []ast.Stmt, []string) {
	switch t := s.(type) {
	case *ast.BlockStmt:
		l, ir := x.block(t.List)
		t.List = l
		return t, nil, ir
	case *ast.LabeledStmt:
		ns, pre, ir := x.stmt(t.Stmt, false)
		t.Stmt = ns
		return t, pre, ir
	case *ast.IfStmt:
		if t.Init != nil {
			x.bindStmt(t.Init)
		}
		ops := append(x.opsOf(t.Init), x.opsOf(t.Cond)...)
		site := -1
		var pre []ast.Stmt
		condText := x.text(t.Cond)
		if needsSite(ops) {
			site = x.newSite()
			if !inElse {
				pre = append(pre, yieldStmt(site))
			} else {
				if len(x.opsOf(t.Init)) > 0 {
					x.errs = append(x.errs, fmt.Sprintf("%s: else-if with an operation in its init statement", x.fset.Position(t.Pos())))
				}
				t.Cond = yieldCond(site, t.Cond)
			}
		}
		body, irThen := x.block(t.Body.List)
		t.Body.List = body
		var irElse []string
		if t.Else != nil {
			ne, _, ire := x.stmt(t.Else, true)
			t.Else = ne
			irElse = ire
		}
		if site < 0 && len(ops) == 0 && len(irThen) == 0 && len(irElse) == 0 {
			return t, pre, nil
		}
		term := "SIf " + gsite(site) + " " + gops(ops) + " " + gstr(condText) + "\n (" + glist(irThen) + ")\n (" + glist(irElse) + ")"
		return t, pre, []string{term}
	case *ast.ForStmt:
		if t.Init != nil {
			x.bindStmt(t.Init)
			if needsSite(x.opsOf(t.Init)) {
				x.errs = append(x.errs, fmt.Sprintf("%s: operation in a for-init statement", x.fset.Position(t.Pos())))
			}
		}
		if t.Post != nil && needsSite(x.opsOf(t.Post)) {
			x.errs = append(x.errs, fmt.Sprintf("%s: operation in a for-post statement", x.fset.Position(t.Pos())))
		}
		ops := x.opsOf(t.Cond)
		condText := x.text(t.Cond)
		site := -1
		if needsSite(ops) {
			site = x.newSite()
			t.Cond = yieldCond(site, t.Cond)
		}
		body, irBody := x.block(t.Body.List)
		t.Body.List = body
		if site < 0 && len(ops) == 0 && len(irBody) == 0 {
			return t, nil, nil
		}
		return t, nil, []string{"SLoop " + gsite(site) + " " + gops(ops) + " " + gstr(condText) + "\n (" + glist(irBody) + ")"}
	case *ast.RangeStmt:
		if needsSite(x.opsOf(t.X)) {
			x.errs = append(x.errs, fmt.Sprintf("%s: operation in a range expression", x.fset.Position(t.Pos())))
		}
		x.bind(identOf(t.Key), identOf(t.Value))
		body, irBody := x.block(t.Body.List)
		t.Body.List = body
		if len(irBody) == 0 {
			return t, nil, nil
		}
		return t, nil, []string{"SLoop None [] " + gstr("range "+x.text(t.X)) + "\n (" + glist(irBody) + ")"}
	case *ast.SwitchStmt:
		if t.Init != nil {
			x.bindStmt(t.Init)
		}
		ops := append(x.opsOf(t.Init), x.opsOf(t.Tag)...)
		site := -1
		var pre []ast.Stmt
		if needsSite(ops) {
			if inElse {
				x.errs = append(x.errs, fmt.Sprintf("%s: unsupported position of a switch with operations", x.fset.Position(t.Pos())))
			}
			site = x.newSite()
			pre = append(pre, yieldStmt(site))
		}
		var cases []string
		any := false
		for _, c := range t.Body.List {
			cc := c.(*ast.CaseClause)
			for _, e := range cc.List {
				if needsSite(x.opsOf(e)) {
					x.errs = append(x.errs, fmt.Sprintf("%s: operation in a case expression", x.fset.Position(e.Pos())))
				}
			}
			body, ir := x.block(cc.Body)
			cc.Body = body
			if len(ir) > 0 {
				any = true
			}
			var lbl []string
			for _, e := range cc.List {
				lbl = append(lbl, x.text(e))
			}
			cases = append(cases, "("+gstr(strings.Join(lbl, ", "))+", "+glist(ir)+")")
		}
		if site < 0 && len(ops) == 0 && !any {
			return t, pre, nil
		}
		return t, pre, []string{"SSwitch " + gsite(site) + " " + gops(ops) + " " + gstr(x.text(t.Tag)) + "\n " + glist(cases)}
	case *ast.SelectStmt:
		site := x.newSite()
		var pre []ast.Stmt
		if inElse {
			x.errs = append(x.errs, fmt.Sprintf("%s: unsupported position of a select", x.fset.Position(t.Pos())))
		}
		pre = append(pre, yieldStmt(site))
		var cases []string
		for _, c := range t.Body.List {
			cc := c.(*ast.CommClause)
			if cc.Comm != nil {
				x.bindStmt(cc.Comm)
			}
			ops := x.opsOf(cc.Comm)
			body, ir := x.block(cc.Body)
			cc.Body = body
			cases = append(cases, "("+gops(ops)+", "+gstr(x.text(cc.Comm))+", "+glist(ir)+")")
		}
		return t, pre, []string{"SSelect " + gsite(site) + "\n " + glist(cases)}
	case *ast.ReturnStmt:
		var ops []opT
		var texts []string
		for _, r := range t.Results {
			ops = append(ops, x.opsOf(r)...)
			texts = append(texts, x.text(r))
		}
		site := -1
		var pre []ast.Stmt
		if needsSite(ops) {
			site = x.newSite()
			if inElse {
				x.errs = append(x.errs, "return in else position")
			}
			pre = append(pre, yieldStmt(site))
		}
		return t, pre, []string{"SReturn " + gsite(site) + " " + gops(ops) + " " + gstr(strings.Join(texts, ", "))}
	case *ast.BranchStmt:
		switch t.Tok {
		case token.BREAK:
			return t, nil, []string{"SBreak"}
		case token.CONTINUE:
			return t, nil, []string{"SContinue"}
		}
		return t, nil, nil
	case *ast.DeferStmt:
		ops := x.opsOf(t.Call)
		if len(ops) == 0 {
			return t, nil, nil
		}
		// the deferred operation runs at function exit; it is listed, not sited
		if needsSite(ops) {
			x.errs = append(x.errs, fmt.Sprintf("%s: deferred shared-memory operation (not sited)", x.fset.Position(t.Pos())))
		}
		return t, nil, []string{"SDefer " + gops(ops) + " " + gstr(x.text(t.Call))}
	case *ast.GoStmt:
		if len(x.opsOf(t.Call)) > 0 {
			x.errs = append(x.errs, fmt.Sprintf("%s: go statement with operations", x.fset.Position(t.Pos())))
		}
		return t, nil, nil
	default:
		// simple statement
		x.bindStmtLate(s)
		ops := x.opsOf(s)
		if len(ops) == 0 {
			x.bindStmt(s)
			return s, nil, nil
		}
		site := -1
		var pre []ast.Stmt
		if needsSite(ops) {
			site = x.newSite()
			if inElse {
				x.errs = append(x.errs, "simple statement in else position")
			}
			pre = append(pre, yieldStmt(site))
		}
		x.bindStmt(s)
		return s, pre, []string{"SOps " + gsite(site) + " " + gops(ops) + " " + gstr(x.text(s))}
	}
}

// bindStmtLate exists so that `x := f(x)` style rebinding keeps the old name on the right:
// names are bound before the text is rendered only for fresh definitions (no-op here; the
// binding happens in bindStmt just before rendering so both sides use the same renaming).
func (x *xl) bindStmtLate(ast.Stmt) {}

func identOf(e ast.Expr) *ast.Ident {
	if id, ok := e.(*ast.Ident); ok {
		return id
	}
	return nil
}

func main() {
	src := flag.String("src", "", "Go source file")
	instr := flag.String("instr", "", "write the instrumented source here")
	ir := flag.String("ir", "", "write the Gallina IR here")
	funcs := flag.String("funcs", "Add,Wait,Count", "functions listed in the IR, in this order")
	codes := flag.String("codes", "Add=1,Wait=2,Count=3", "site codes of functions")
	name := flag.String("name", "gen_prog", "name of the generated definition")
	flag.Parse()
	fset := token.NewFileSet()
	f, err := parser.ParseFile(fset, *src, nil, parser.ParseComments)
	if err != nil {
		fmt.Fprintln(os.Stderr, err)
		os.Exit(1)
	}
	codeOf := map[string]int{}
	for _, kv := range strings.Split(*codes, ",") {
		p := strings.SplitN(kv, "=", 2)
		if len(p) == 2 {
			n, _ := strconv.Atoi(p[1])
			codeOf[p[0]] = n
		}
	}
	x := &xl{fset: fset, atomicField: map[string]bool{}, mutexField: map[string]bool{}, methods: map[string]bool{}}
	x.collectFields(f)
	irOf := map[string]string{}
	nsites := map[string]int{}
	next := 10
	for _, d := range f.Decls {
		fd, ok := d.(*ast.FuncDecl)
		if !ok || fd.Body == nil {
			continue
		}
		code, ok := codeOf[fd.Name.Name]
		if !ok || fd.Recv == nil {
			code = next
			next++
		}
		x.fnCode, x.nsite = code, 0
		x.rename = map[string]string{}
		x.recv = ""
		if fd.Recv != nil && len(fd.Recv.List) > 0 && len(fd.Recv.List[0].Names) > 0 {
			x.recv = fd.Recv.List[0].Names[0].Name
			x.rename[x.recv] = "recv"
		}
		if fd.Type.Params != nil {
			for _, p := range fd.Type.Params.List {
				x.bind(p.Names...)
			}
		}
		body, terms := x.block(fd.Body.List)
		fd.Body.List = body
		key := fd.Name.Name
		if fd.Recv == nil {
			key = "func " + key
		}
		irOf[key] = glist(terms)
		nsites[key] = x.nsite
	}
	if len(x.errs) > 0 {
		for _, e := range x.errs {
			fmt.Fprintln(os.Stderr, "xlate_conc:", e)
		}
		os.Exit(3)
	}
	if *instr != "" {
		var buf bytes.Buffer
		buf.WriteString("// Code generated by xlate_conc (verification scratch copy only). DO NOT EDIT.\n")
		if err := printer.Fprint(&buf, fset, f); err != nil {
			fmt.Fprintln(os.Stderr, err)
			os.Exit(1)
		}
		if err := os.WriteFile(*instr, buf.Bytes(), 0o644); err != nil {
			fmt.Fprintln(os.Stderr, err)
			os.Exit(1)
		}
	}
	if *ir != "" {
		var b strings.Builder
		b.WriteString("(* generated by xlate_conc from " + *src + " - do not edit *)\n")
		b.WriteString("From Coq Require Import List String.\nFrom GT Require Import Base.ConcIR.\nImport ListNotations.\nLocal Open Scope string_scope.\n\n")
		b.WriteString("Definition " + *name + " : list func :=\n[")
		first := true
		for _, fn := range strings.Split(*funcs, ",") {
			t, ok := irOf[fn]
			if !ok {
				t = "[SMissing]"
			}
			if !first {
				b.WriteString(";\n")
			}
			first = false
			b.WriteString("(" + gstr(fn) + ",\n " + t + ")")
		}
		b.WriteString("].\n")
		if err := os.WriteFile(*ir, []byte(b.String()), 0o644); err != nil {
			fmt.Fprintln(os.Stderr, err)
			os.Exit(1)
		}
	}
}
