// ir2.go — the second IR output of xlate_conc (-ir2): Base/ConcIR2.v terms.
//
// The first IR (-ir) re-states one function body and is compared syntactically.  This one keeps
// calls of functions / methods of the same file (hoisted out of expressions into temporaries,
// in evaluation order), all `for` forms, break / continue, blocks, parallel assignments, several
// and named results, tagless and tagged switch (as an if chain).  It is produced from a second,
// untouched parse of the source; the site of a statement / condition is looked up by its file
// offset in the table the instrumenting walk filled, so the two outputs cannot disagree on sites.
//
// Besides the term it produces the CANONICAL SITE TABLE: for every API function the sites it can
// reach through its helpers, numbered 100*code+0,1,2.. in the order of a walk of the call tree.
// The harness renames the recorded sites with it and WGSim.v uses it for the machine's sites, so
// that moving an operation into a helper does not change the observable numbering.
package main

import (
	"fmt"
	"go/ast"
	"go/token"
	"sort"
	"strconv"
	"strings"
)

type ir2 struct {
	x      *xl
	fset   *token.FileSet
	siteAt map[int]int // file offset of a statement / condition -> site
	funcs  map[string]*ast.FuncDecl
	consts map[string]string // package-level integer constants with a literal value
	narrow map[string]bool   // struct fields of an integer type other than int / int64
	api    map[string]bool
	// per function
	scopes   []map[string]string
	nvar     int
	prefix   string
	recv     string
	results  []string // IR names of the named results
	inSwitch int
	// reachability
	order []string
	done  map[string]string
}

func (g *ir2) off(p token.Pos) int { return g.fset.Position(p).Offset }

func (g *ir2) site(n ast.Node) string {
	if n == nil {
		return "None"
	}
	if s, ok := g.siteAt[g.off(n.Pos())]; ok {
		return "(Some " + strconv.Itoa(s) + ")"
	}
	return "None"
}

func (g *ir2) push() { g.scopes = append(g.scopes, map[string]string{}) }
func (g *ir2) pop()  { g.scopes = g.scopes[:len(g.scopes)-1] }

func (g *ir2) lookup(name string) (string, bool) {
	for i := len(g.scopes) - 1; i >= 0; i-- {
		if r, ok := g.scopes[i][name]; ok {
			return r, true
		}
	}
	return "", false
}

func (g *ir2) declare(name string) string {
	r := g.prefix + "v" + strconv.Itoa(g.nvar)
	g.nvar++
	g.scopes[len(g.scopes)-1][name] = r
	return r
}

func (g *ir2) temp() string {
	r := g.prefix + "t" + strconv.Itoa(g.nvar)
	g.nvar++
	return r
}

// localCall: a call of a function or method declared in this file (not an atomic / mutex
// operation, not a conversion, not a call through a package name).
func (g *ir2) localCall(e *ast.CallExpr) (name string, args []ast.Expr, ok bool) {
	if _, _, shared := g.x.sharedOp(e); shared {
		return "", nil, false
	}
	switch f := e.Fun.(type) {
	case *ast.Ident:
		if _, isLocal := g.lookup(f.Name); isLocal {
			return "", nil, false
		}
		if fd, found := g.funcs[f.Name]; found && fd.Recv == nil {
			return f.Name, e.Args, true
		}
	case *ast.SelectorExpr:
		fd, found := g.funcs[f.Sel.Name]
		if !found || fd.Recv == nil {
			return "", nil, false
		}
		if id, isId := f.X.(*ast.Ident); isId {
			if _, isLocal := g.lookup(id.Name); !isLocal {
				return "", nil, false // package-qualified
			}
		}
		return f.Sel.Name, append([]ast.Expr{f.X}, e.Args...), true
	}
	return "", nil, false
}

func nresults(fd *ast.FuncDecl) int {
	n := 0
	if fd.Type.Results != nil {
		for _, f := range fd.Type.Results.List {
			if len(f.Names) == 0 {
				n++
			} else {
				n += len(f.Names)
			}
		}
	}
	return n
}

func (g *ir2) hasAtomic(e ast.Node) bool {
	found := false
	if e == nil {
		return false
	}
	ast.Inspect(e, func(m ast.Node) bool {
		switch c := m.(type) {
		case *ast.FuncLit:
			return false
		case *ast.CallExpr:
			if _, _, ok := g.x.sharedOp(c); ok {
				found = true
			}
			if id, ok := c.Fun.(*ast.Ident); ok && id.Name == "close" {
				found = true
			}
		case *ast.UnaryExpr:
			if c.Op == token.ARROW {
				found = true
			}
		}
		return true
	})
	return found
}

// expr renders an expression; calls of local functions are hoisted: the TCall terms go to *pre
// (evaluation order) and the call is replaced by its temporary.  bad is set when the expression
// cannot be rendered faithfully (a hoisted call next to a shared-memory operation).
func (g *ir2) expr(e ast.Expr, pre *[]string, bad *bool) string {
	switch t := e.(type) {
	case nil:
		return "(EUnknown \"\")"
	case *ast.ParenExpr:
		return g.expr(t.X, pre, bad)
	case *ast.Ident:
		if r, ok := g.lookup(t.Name); ok {
			return "(EVar " + gstr(r) + ")"
		}
		switch t.Name {
		case "true":
			return "(EBin BEq (EInt 0%Z) (EInt 0%Z))"
		case "false":
			return "(EBin BNe (EInt 0%Z) (EInt 0%Z))"
		case "nil", "iota":
			return "(EUnknown " + gstr(t.Name) + ")"
		}
		if v, ok := g.consts[t.Name]; ok {
			return "(EInt " + gz(v) + ")" // a named constant is its value
		}
		return "(EGlobal " + gstr(t.Name) + ")"
	case *ast.BasicLit:
		if t.Kind == token.INT {
			if v, err := strconv.ParseInt(t.Value, 0, 64); err == nil {
				return "(EInt " + gz(strconv.FormatInt(v, 10)) + ")"
			}
		}
		return "(EUnknown " + gstr(t.Value) + ")"
	case *ast.UnaryExpr:
		switch t.Op {
		case token.AND:
			if cl, ok := t.X.(*ast.CompositeLit); ok {
				return g.newStruct(cl, pre, bad)
			}
			return "(EAddr " + g.expr(t.X, pre, bad) + ")"
		case token.NOT:
			return "(ENot " + g.expr(t.X, pre, bad) + ")"
		case token.SUB:
			if bl, ok := t.X.(*ast.BasicLit); ok && bl.Kind == token.INT {
				if v, err := strconv.ParseInt(bl.Value, 0, 64); err == nil {
					return "(EInt " + gz(strconv.FormatInt(-v, 10)) + ")"
				}
			}
			return "(EBin BSub (EInt 0%Z) " + g.expr(t.X, pre, bad) + ")"
		}
		return "(EUnknown " + gstr(g.x.src(t)) + ")"
	case *ast.StarExpr:
		return "(EDeref " + g.expr(t.X, pre, bad) + ")"
	case *ast.BinaryExpr:
		if o, ok := binops[t.Op]; ok {
			if (t.Op == token.LAND || t.Op == token.LOR) && g.hasLocalCall(t.Y) {
				// the right operand is evaluated conditionally: its call cannot be hoisted
				*bad = true
			}
			a := g.expr(t.X, pre, bad)
			b := g.expr(t.Y, pre, bad)
			return "(EBin " + o + " " + a + " " + b + ")"
		}
		return "(EUnknown " + gstr(g.x.src(t)) + ")"
	case *ast.SelectorExpr:
		if id, ok := t.X.(*ast.Ident); ok {
			if _, local := g.lookup(id.Name); !local {
				return "(EUnknown " + gstr(g.x.src(t)) + ")" // package-qualified name
			}
		}
		if g.narrow[t.Sel.Name] {
			return "(EUnknown " + gstr("field of a narrow integer type "+g.x.src(t)) + ")"
		}
		// a plain field read through a local or the receiver (a receiver without a value of its
		// own - the wait group - evaluates to VUnit, and a field of VUnit is stuck)
		return "(EField " + g.expr(t.X, pre, bad) + " " + gstr(t.Sel.Name) + ")"
	case *ast.CallExpr:
		if k, f, ok := g.x.sharedOp(t); ok {
			if g.narrow[f] {
				return "(EUnknown " + gstr("atomic of a narrow integer type "+g.x.src(t)) + ")"
			}
			args := make([]string, len(t.Args))
			for i, a := range t.Args {
				args[i] = g.expr(a, pre, bad)
			}
			return "(EAtomic " + k + " " + gstr(f) + " [" + strings.Join(args, "; ") + "])"
		}
		if name, args, ok := g.localCall(t); ok {
			if nresults(g.funcs[name]) != 1 {
				*bad = true
			}
			tmp := g.temp()
			*pre = append(*pre, g.callTerm("None", []string{"DDefine " + gstr(tmp)}, name, args, pre, bad))
			return "(EVar " + gstr(tmp) + ")"
		}
		if id, ok := t.Fun.(*ast.Ident); ok {
			if convNames[id.Name] && len(t.Args) == 1 {
				// only conversions to the API's own integer type are the identity on the model's
				// integers; a conversion to a narrower or unsigned type is modular arithmetic
				// (int32(delta), uint32(delta)): not translated, so such code cannot pass the tie
				if id.Name == "int" || id.Name == "int64" {
					return "(EConv " + g.expr(t.Args[0], pre, bad) + ")"
				}
				return "(EUnknown " + gstr("narrowing conversion "+g.x.src(t)) + ")"
			}
			if id.Name == "make" && len(t.Args) >= 1 {
				if _, ok := t.Args[0].(*ast.ChanType); ok {
					return "EMake"
				}
			}
		}
		return "(EUnknown " + gstr(g.x.src(t)) + ")"
	}
	return "(EUnknown " + gstr(g.x.src(e)) + ")"
}

func (g *ir2) hasLocalCall(e ast.Node) bool {
	found := false
	if e == nil {
		return false
	}
	ast.Inspect(e, func(m ast.Node) bool {
		if c, ok := m.(*ast.CallExpr); ok {
			if _, _, ok := g.localCall(c); ok {
				found = true
			}
		}
		return true
	})
	return found
}

func (g *ir2) newStruct(cl *ast.CompositeLit, pre *[]string, bad *bool) string {
	ty := g.x.src(cl.Type)
	var fs []string
	for _, el := range cl.Elts {
		kv, ok := el.(*ast.KeyValueExpr)
		if !ok {
			return "(EUnknown " + gstr(g.x.src(cl)) + ")"
		}
		k, ok := kv.Key.(*ast.Ident)
		if !ok {
			return "(EUnknown " + gstr(g.x.src(cl)) + ")"
		}
		fs = append(fs, "("+gstr(k.Name)+", "+g.expr(kv.Value, pre, bad)+")")
	}
	return "(ENew " + gstr(ty) + " [" + strings.Join(fs, "; ") + "])"
}

func (g *ir2) callTerm(site string, dests []string, name string, args []ast.Expr, pre *[]string, bad *bool) string {
	g.reach(name)
	as := make([]string, len(args))
	for i, a := range args {
		as[i] = g.expr(a, pre, bad)
	}
	return "TCall " + site + " [" + strings.Join(dests, "; ") + "] " + gstr(name) + " [" + strings.Join(as, "; ") + "]"
}

// exprChecked renders an expression of a statement; when calls were hoisted next to a
// shared-memory operation of the same expression the order of effects would change: unsupported.
func (g *ir2) exprs(es []ast.Expr) (pre []string, out []string, ok bool) {
	bad := false
	for _, e := range es {
		out = append(out, g.expr(e, &pre, &bad))
	}
	if len(pre) > 0 {
		for _, e := range es {
			if g.hasAtomic(e) {
				bad = true
			}
		}
	}
	return pre, out, !bad
}

func (g *ir2) other(n ast.Node) []string {
	return []string{"TOther " + g.site(n) + " " + gstr(g.x.src(n))}
}

func (g *ir2) block(list []ast.Stmt) []string {
	var out []string
	for _, s := range list {
		out = append(out, g.stmt(s)...)
	}
	return out
}

func (g *ir2) scoped(list []ast.Stmt) []string {
	g.push()
	defer g.pop()
	return g.block(list)
}

func (g *ir2) dest(l ast.Expr, define bool) (string, bool) {
	switch t := l.(type) {
	case *ast.Ident:
		if t.Name == "_" {
			return "DIgnore", true
		}
		if define {
			if _, here := g.scopes[len(g.scopes)-1][t.Name]; !here {
				return "DDefine " + gstr(g.declare(t.Name)), true
			}
		}
		if r, ok := g.lookup(t.Name); ok {
			return "DAssign (LVar " + gstr(r) + ")", true
		}
	case *ast.SelectorExpr:
		if id, ok := t.X.(*ast.Ident); ok {
			if r, ok := g.lookup(id.Name); ok {
				return "DAssign (LField " + gstr(r) + " " + gstr(t.Sel.Name) + ")", true
			}
		}
	}
	return "", false
}

func tlist(items []string) string { return "[" + strings.Join(items, ";\n ") + "]" }

func containsBreak(list []ast.Stmt) bool {
	found := false
	for _, s := range list {
		ast.Inspect(s, func(m ast.Node) bool {
			switch b := m.(type) {
			case *ast.ForStmt, *ast.RangeStmt, *ast.SwitchStmt, *ast.TypeSwitchStmt, *ast.SelectStmt, *ast.FuncLit:
				return false
			case *ast.BranchStmt:
				if b.Tok == token.BREAK || b.Tok == token.FALLTHROUGH {
					found = true
				}
			}
			return true
		})
	}
	return found
}

func (g *ir2) stmt(s ast.Stmt) []string {
	switch t := s.(type) {
	case *ast.EmptyStmt:
		return nil
	case *ast.BlockStmt:
		return []string{"TBlock\n (" + tlist(g.scoped(t.List)) + ")"}
	case *ast.IfStmt:
		g.push()
		defer g.pop()
		var out []string
		if t.Init != nil {
			if site, sited := g.siteAt[g.off(t.Pos())]; sited {
				// the instrumenter put the yield in front of the whole statement: it belongs to the
				// init statement when the operation is there and the condition has none
				if g.hasAtomic(t.Cond) || !g.hasAtomic(t.Init) {
					return g.other(t)
				}
				g.siteAt[g.off(t.Init.Pos())] = site
			}
			out = append(out, g.stmt(t.Init)...)
		}
		pre, cs, ok := g.exprs([]ast.Expr{t.Cond})
		if !ok {
			return g.other(t)
		}
		th := g.scoped(t.Body.List)
		var el []string
		switch e := t.Else.(type) {
		case nil:
		case *ast.BlockStmt:
			el = g.scoped(e.List)
		default:
			el = g.stmt(e)
		}
		out = append(out, pre...)
		out = append(out, "TIf "+g.site(t.Cond)+" "+cs[0]+"\n ("+tlist(th)+")\n ("+tlist(el)+")")
		if t.Init != nil {
			return []string{"TBlock\n (" + tlist(out) + ")"}
		}
		return out
	case *ast.ForStmt:
		g.push()
		defer g.pop()
		var out []string
		if t.Init != nil {
			out = append(out, g.stmt(t.Init)...)
		}
		var post []string
		if t.Post != nil {
			post = g.stmt(t.Post)
		}
		var loop string
		if t.Cond == nil {
			loop = "TFor None None\n (" + tlist(post) + ")\n (" + tlist(g.scoped(t.Body.List)) + ")"
		} else {
			pre, cs, ok := g.exprs([]ast.Expr{t.Cond})
			if !ok {
				return g.other(t)
			}
			if len(pre) == 0 {
				loop = "TFor " + g.site(t.Cond) + " (Some " + cs[0] + ")\n (" + tlist(post) + ")\n (" + tlist(g.scoped(t.Body.List)) + ")"
			} else {
				// the condition calls a helper: evaluated at the top of every iteration
				body := append(pre, "TIf None "+cs[0]+"\n ([])\n ([TBreak])")
				body = append(body, "TBlock\n ("+tlist(g.scoped(t.Body.List))+")")
				loop = "TFor None None\n (" + tlist(post) + ")\n (" + tlist(body) + ")"
			}
		}
		out = append(out, loop)
		if t.Init != nil {
			return []string{"TBlock\n (" + tlist(out) + ")"}
		}
		return out
	case *ast.SwitchStmt:
		if _, sited := g.siteAt[g.off(t.Pos())]; sited {
			return g.other(t)
		}
		g.push()
		defer g.pop()
		var out []string
		if t.Init != nil {
			out = append(out, g.stmt(t.Init)...)
		}
		tag := ""
		if t.Tag != nil {
			pre, ts, ok := g.exprs([]ast.Expr{t.Tag})
			if !ok || g.hasAtomic(t.Tag) {
				return g.other(t)
			}
			out = append(out, pre...)
			tmp := g.temp()
			out = append(out, "TSet None [DDefine "+gstr(tmp)+"] ["+ts[0]+"]")
			tag = "(EVar " + gstr(tmp) + ")"
		}
		type arm struct {
			cond string
			body []string
		}
		var arms []arm
		var deflt []string
		hasDefault := false
		for _, c := range t.Body.List {
			cc := c.(*ast.CaseClause)
			if containsBreak(cc.Body) {
				return g.other(t)
			}
			if cc.List == nil {
				hasDefault = true
				deflt = g.scoped(cc.Body)
				continue
			}
			cond := ""
			for _, e := range cc.List {
				if g.hasAtomic(e) || g.hasLocalCall(e) {
					return g.other(t)
				}
				var pre []string
				bad := false
				c1 := g.expr(e, &pre, &bad)
				if tag != "" {
					c1 = "(EBin BEq " + tag + " " + c1 + ")"
				}
				if cond == "" {
					cond = c1
				} else {
					cond = "(EBin BOr " + cond + " " + c1 + ")"
				}
			}
			arms = append(arms, arm{cond, g.scoped(cc.Body)})
		}
		_ = hasDefault
		chain := deflt
		for i := len(arms) - 1; i >= 0; i-- {
			chain = []string{"TIf None " + arms[i].cond + "\n (" + tlist(arms[i].body) + ")\n (" + tlist(chain) + ")"}
		}
		out = append(out, chain...)
		if t.Init != nil || t.Tag != nil {
			return []string{"TBlock\n (" + tlist(out) + ")"}
		}
		return out
	case *ast.ReturnStmt:
		if len(t.Results) == 0 {
			var rs []string
			for _, r := range g.results {
				rs = append(rs, "(EVar "+gstr(r)+")")
			}
			return []string{"TReturn " + g.site(t) + " [" + strings.Join(rs, "; ") + "]"}
		}
		if len(t.Results) == 1 {
			if c, ok := stripParens(t.Results[0]).(*ast.CallExpr); ok {
				if name, args, ok := g.localCall(c); ok && nresults(g.funcs[name]) != 1 {
					n := nresults(g.funcs[name])
					var ds, rs []string
					for i := 0; i < n; i++ {
						tmp := g.temp()
						ds = append(ds, "DDefine "+gstr(tmp))
						rs = append(rs, "(EVar "+gstr(tmp)+")")
					}
					var pre []string
					bad := false
					call := g.callTerm(g.site(t), ds, name, args, &pre, &bad)
					if bad || (len(pre) > 0 && g.hasAtomic(c)) {
						return g.other(t)
					}
					return append(pre, call, "TReturn None ["+strings.Join(rs, "; ")+"]")
				}
			}
		}
		pre, rs, ok := g.exprs(t.Results)
		if !ok {
			return g.other(t)
		}
		return append(pre, "TReturn "+g.site(t)+" ["+strings.Join(rs, "; ")+"]")
	case *ast.BranchStmt:
		if t.Label == nil && t.Tok == token.BREAK && g.inSwitch == 0 {
			return []string{"TBreak"}
		}
		if t.Label == nil && t.Tok == token.CONTINUE {
			return []string{"TContinue"}
		}
		return g.other(t)
	case *ast.IncDecStmt:
		op := "BAdd"
		if t.Tok == token.DEC {
			op = "BSub"
		}
		var pre []string
		bad := false
		v := g.expr(t.X, &pre, &bad)
		d, ok := g.dest(t.X, false)
		if !ok || bad || len(pre) > 0 {
			return g.other(t)
		}
		return []string{"TSet " + g.site(t) + " [" + d + "] [(EBin " + op + " " + v + " (EInt 1%Z))]"}
	case *ast.AssignStmt:
		define := t.Tok == token.DEFINE
		if t.Tok == token.ADD_ASSIGN || t.Tok == token.SUB_ASSIGN {
			op := "BAdd"
			if t.Tok == token.SUB_ASSIGN {
				op = "BSub"
			}
			pre, rs, ok := g.exprs([]ast.Expr{t.Lhs[0], t.Rhs[0]})
			d, okd := g.dest(t.Lhs[0], false)
			if !ok || !okd || len(t.Lhs) != 1 {
				return g.other(t)
			}
			return append(pre, "TSet "+g.site(t)+" ["+d+"] [(EBin "+op+" "+rs[0]+" "+rs[1]+")]")
		}
		if t.Tok != token.DEFINE && t.Tok != token.ASSIGN {
			return g.other(t)
		}
		if len(t.Rhs) == 1 {
			if c, ok := stripParens(t.Rhs[0]).(*ast.CallExpr); ok {
				if name, args, ok := g.localCall(c); ok && nresults(g.funcs[name]) == len(t.Lhs) {
					var pre []string
					bad := false
					g.reach(name)
					as := make([]string, len(args))
					for i, a := range args {
						as[i] = g.expr(a, &pre, &bad)
					}
					if bad || (len(pre) > 0 && g.hasAtomic(c)) {
						return g.other(t)
					}
					var ds []string
					for _, l := range t.Lhs {
						d, ok := g.dest(l, define)
						if !ok {
							return g.other(t)
						}
						ds = append(ds, d)
					}
					return append(pre, "TCall "+g.site(t)+" ["+strings.Join(ds, "; ")+"] "+gstr(name)+" ["+strings.Join(as, "; ")+"]")
				}
			}
		}
		if len(t.Lhs) != len(t.Rhs) {
			return g.other(t)
		}
		pre, rs, ok := g.exprs(t.Rhs) // rendered before the left-hand side is declared
		if !ok {
			return g.other(t)
		}
		var ds []string
		for _, l := range t.Lhs {
			d, ok := g.dest(l, define)
			if !ok {
				return g.other(t)
			}
			ds = append(ds, d)
		}
		return append(pre, "TSet "+g.site(t)+" ["+strings.Join(ds, "; ")+"] ["+strings.Join(rs, "; ")+"]")
	case *ast.DeclStmt:
		gd, ok := t.Decl.(*ast.GenDecl)
		if !ok || gd.Tok != token.VAR {
			return g.other(t)
		}
		var out []string
		for _, sp := range gd.Specs {
			vs := sp.(*ast.ValueSpec)
			if len(vs.Values) == len(vs.Names) {
				pre, rs, ok := g.exprs(vs.Values)
				if !ok {
					return g.other(t)
				}
				var ds []string
				for _, n := range vs.Names {
					d, _ := g.dest(n, true)
					ds = append(ds, d)
				}
				out = append(out, pre...)
				out = append(out, "TSet "+g.site(t)+" ["+strings.Join(ds, "; ")+"] ["+strings.Join(rs, "; ")+"]")
				continue
			}
			id, isId := vs.Type.(*ast.Ident)
			if len(vs.Values) != 0 || !isId || !(convNames[id.Name] || id.Name == "bool") {
				return g.other(t)
			}
			zero := "(EInt 0%Z)"
			if id.Name == "bool" {
				zero = "(EBin BNe (EInt 0%Z) (EInt 0%Z))"
			}
			for _, n := range vs.Names {
				d, _ := g.dest(n, true)
				out = append(out, "TSet None ["+d+"] ["+zero+"]")
			}
		}
		return out
	case *ast.ExprStmt:
		if call, ok := t.X.(*ast.CallExpr); ok {
			if name, args, ok := g.localCall(call); ok {
				var pre []string
				bad := false
				var ds []string
				for i := 0; i < nresults(g.funcs[name]); i++ {
					ds = append(ds, "DIgnore")
				}
				c := g.callTerm(g.site(t), ds, name, args, &pre, &bad)
				if bad || (len(pre) > 0 && g.hasAtomic(call)) {
					return g.other(t)
				}
				return append(pre, c)
			}
			if id, ok := call.Fun.(*ast.Ident); ok && id.Name == "close" && len(call.Args) == 1 {
				pre, rs, ok := g.exprs(call.Args)
				if !ok {
					return g.other(t)
				}
				return append(pre, "TClose "+g.site(t)+" "+rs[0])
			}
		}
		pre, rs, ok := g.exprs([]ast.Expr{t.X})
		if !ok {
			return g.other(t)
		}
		return append(pre, "TExpr "+g.site(t)+" "+rs[0])
	}
	return g.other(s)
}

// recvType: the receiver's type name of a method (without * and type parameters)
func recvType(fd *ast.FuncDecl) string {
	if fd.Recv == nil || len(fd.Recv.List) == 0 {
		return ""
	}
	t := fd.Recv.List[0].Type
	for {
		switch u := t.(type) {
		case *ast.StarExpr:
			t = u.X
		case *ast.ParenExpr:
			t = u.X
		case *ast.IndexExpr:
			t = u.X
		case *ast.IndexListExpr:
			t = u.X
		case *ast.Ident:
			return u.Name
		default:
			return "?"
		}
	}
}

func stripParens(e ast.Expr) ast.Expr {
	for {
		p, ok := e.(*ast.ParenExpr)
		if !ok {
			return e
		}
		e = p.X
	}
}

// reach translates a function the first time it is referred to.
func (g *ir2) reach(name string) {
	if _, ok := g.done[name]; ok {
		return
	}
	fd, ok := g.funcs[name]
	if !ok || fd.Body == nil {
		return
	}
	g.done[name] = "" // breaks recursion; a recursive call finds no body and denotes "stuck"
	g.order = append(g.order, name)
	// save the caller's state
	sv := *g
	g.scopes, g.nvar, g.results, g.inSwitch = nil, 1, nil, 0
	g.prefix = ""
	if !g.api[name] {
		g.prefix = name + "."
	}
	g.push()
	g.recv = ""
	var params []string
	if fd.Recv != nil && len(fd.Recv.List) > 0 {
		if len(fd.Recv.List[0].Names) > 0 {
			g.recv = fd.Recv.List[0].Names[0].Name
		}
		r := g.prefix + "recv"
		if g.recv != "" && g.recv != "_" {
			g.scopes[0][g.recv] = r
		}
		params = append(params, gstr(r))
	}
	if fd.Type.Params != nil {
		for _, p := range fd.Type.Params.List {
			for _, n := range p.Names {
				if n.Name == "_" {
					params = append(params, gstr(g.temp()))
				} else {
					params = append(params, gstr(g.declare(n.Name)))
				}
			}
			if len(p.Names) == 0 {
				params = append(params, gstr(g.temp()))
			}
		}
	}
	var results []string
	if fd.Type.Results != nil {
		for _, p := range fd.Type.Results.List {
			for _, n := range p.Names {
				r := g.declare(n.Name)
				g.results = append(g.results, r)
				results = append(results, gstr(r))
			}
		}
	}
	body := g.scoped(fd.Body.List)
	term := "Func2 " + gstr(name) + " [" + strings.Join(params, "; ") + "] [" + strings.Join(results, "; ") + "]\n " + tlist(body)
	// restore
	order, done := g.order, g.done
	*g = sv
	g.order, g.done = order, done
	g.done[name] = term
}

// canonical sites of an API function: sites in the order of a walk of its call tree
func (g *ir2) walkSites(name string, seen map[int]bool, out *[]int, depth int) {
	fd, ok := g.funcs[name]
	if !ok || fd.Body == nil || depth > 8 {
		return
	}
	ast.Inspect(fd.Body, func(m ast.Node) bool {
		if m == nil {
			return true
		}
		if _, isLit := m.(*ast.FuncLit); isLit {
			return false
		}
		if s, ok := g.siteAt[g.off(m.Pos())]; ok && !seen[s] {
			if _, isStmtOrExpr := m.(ast.Stmt); isStmtOrExpr {
				seen[s] = true
				*out = append(*out, s)
			} else if _, isExpr := m.(ast.Expr); isExpr {
				seen[s] = true
				*out = append(*out, s)
			}
		}
		if c, ok := m.(*ast.CallExpr); ok {
			// which function this names is decided without scope information here: a local
			// variable shadowing a function name would only add sites to the table
			switch f := c.Fun.(type) {
			case *ast.Ident:
				if fd2, ok := g.funcs[f.Name]; ok && fd2.Recv == nil {
					g.walkSites(f.Name, seen, out, depth+1)
				}
			case *ast.SelectorExpr:
				if _, _, shared := g.x.sharedOp(c); !shared {
					if fd2, ok := g.funcs[f.Sel.Name]; ok && fd2.Recv != nil {
						g.walkSites(f.Sel.Name, seen, out, depth+1)
					}
				}
			}
		}
		return true
	})
}

// emitIR2 writes the Gallina file and returns the canonical site table as JSON.
func emitIR2(x *xl, fset *token.FileSet, f *ast.File, siteAt map[int]int, api []string, codeOf map[string]int, src string, timed []string, wrappers []string) (coq string, sitemapJSON string) {
	g := &ir2{x: x, fset: fset, siteAt: siteAt, funcs: map[string]*ast.FuncDecl{}, done: map[string]string{}, api: map[string]bool{}}
	for _, a := range api {
		g.api[a] = true
	}
	g.narrow = map[string]bool{}
	ast.Inspect(f, func(n ast.Node) bool {
		st, ok := n.(*ast.StructType)
		if !ok {
			return true
		}
		for _, fl := range st.Fields.List {
			ty := x.src(fl.Type)
			isNarrow := false
			switch ty {
			case "int8", "int16", "int32", "uint", "uint8", "uint16", "uint32", "uint64", "uintptr", "byte", "rune",
				"atomic.Int32", "atomic.Uint32", "atomic.Uint64", "atomic.Uintptr":
				isNarrow = true
			}
			for _, nm := range fl.Names {
				if isNarrow {
					g.narrow[nm.Name] = true
				}
			}
		}
		return true
	})
	g.consts = map[string]string{}
	for _, d := range f.Decls {
		gd, ok := d.(*ast.GenDecl)
		if !ok || gd.Tok != token.CONST {
			continue
		}
		for _, sp := range gd.Specs {
			vs := sp.(*ast.ValueSpec)
			if len(vs.Values) != len(vs.Names) {
				continue // iota groups and the like: left unresolved (EGlobal, which is stuck)
			}
			for i, n := range vs.Names {
				e := stripParens(vs.Values[i])
				neg := false
				if u, ok := e.(*ast.UnaryExpr); ok && u.Op == token.SUB {
					neg, e = true, stripParens(u.X)
				}
				if bl, ok := e.(*ast.BasicLit); ok && bl.Kind == token.INT {
					if v, err := strconv.ParseInt(bl.Value, 0, 64); err == nil {
						if neg {
							v = -v
						}
						g.consts[n.Name] = strconv.FormatInt(v, 10)
					}
				}
			}
		}
	}
	dup := map[string]bool{}
	for _, d := range f.Decls {
		if fd, ok := d.(*ast.FuncDecl); ok {
			if _, twice := g.funcs[fd.Name.Name]; twice {
				dup[fd.Name.Name] = true
			}
			g.funcs[fd.Name.Name] = fd
		}
	}
	for n := range dup {
		delete(g.funcs, n) // two methods of one name on different types: not resolved without types
	}
	// the API functions are the methods of the type the constructor hands out
	core := ""
	for _, d := range f.Decls {
		if fd, ok := d.(*ast.FuncDecl); ok && fd.Recv == nil && strings.HasPrefix(fd.Name.Name, "New") &&
			fd.Type.Results != nil && len(fd.Type.Results.List) == 1 {
			if st, ok := fd.Type.Results.List[0].Type.(*ast.StarExpr); ok {
				if id, ok := st.X.(*ast.Ident); ok && core == "" {
					core = id.Name
				}
			}
		}
	}
	for _, a := range api {
		if fd, ok := g.funcs[a]; ok && core != "" && recvType(fd) != core {
			delete(g.funcs, a) // declared on another type: "missing"
		}
	}
	for _, a := range api {
		g.reach(a)
	}
	var b strings.Builder
	b.WriteString("(* generated by xlate_conc -ir2 from " + src + " - do not edit *)\n")
	b.WriteString("From Coq Require Import List String ZArith.\nFrom GT Require Import Base.ConcIR.\nFrom GT Require Import Base.ConcIR2.\n")
	if len(timed) > 0 {
		b.WriteString("From GT Require Import WGTimed.\n")
	}
	b.WriteString("Import ListNotations.\nLocal Open Scope string_scope.\n\n")
	b.WriteString("Definition gen_prog2 : prog2 :=\n[")
	first := true
	emit := func(t string) {
		if !first {
			b.WriteString(";\n")
		}
		first = false
		b.WriteString(t)
	}
	for _, a := range api {
		if t, ok := g.done[a]; ok && t != "" {
			emit(t)
		} else {
			emit("Func2 " + gstr(a) + " [] [] [TOther None \"missing\"]")
		}
	}
	isAPI := map[string]bool{}
	for _, a := range api {
		isAPI[a] = true
	}
	for _, n := range g.order {
		if !isAPI[n] {
			emit(g.done[n])
		}
	}
	b.WriteString("].\n\n")
	// canonical site table
	var js []string
	b.WriteString("Definition gen_sitemap : sitemap :=\n[")
	for i, a := range api {
		var sites []int
		g.walkSites(a, map[int]bool{}, &sites, 0)
		var pairs, jp []string
		for k, s := range sites {
			c := codeOf[a]*100 + k
			pairs = append(pairs, fmt.Sprintf("(%d, %d)", s, c))
			jp = append(jp, fmt.Sprintf("%q: %d", strconv.Itoa(s), c))
		}
		if i > 0 {
			b.WriteString(";\n ")
		}
		b.WriteString("(" + gstr(a) + ", [" + strings.Join(pairs, "; ") + "]%nat)")
		sort.Strings(jp)
		js = append(js, fmt.Sprintf(" %q: {%s}", a, strings.Join(jp, ", ")))
	}
	b.WriteString("].\n")
	if len(wrappers) > 0 {
		// one-line wrappers of the API (Inc, Dec): re-stated like any other function
		b.WriteString("\nDefinition gen_wrappers : prog2 :=\n[")
		for i, n := range wrappers {
			g.api[n] = true
			g.reach(n)
			if i > 0 {
				b.WriteString(";\n")
			}
			if t, ok := g.done[n]; ok && t != "" {
				b.WriteString(t)
			} else {
				b.WriteString("Func2 " + gstr(n) + " [] [] [TOther None \"missing\"]")
			}
		}
		b.WriteString("].\n")
	}
	// the exported surface of the package: every exported function and method with its receiver
	// type, and the type the constructor returns.  A wrapper type around the tied core, an extra
	// exported method, API methods declared on another type than the one the constructor hands out
	// all show here (and the API functions are only translated when their receiver is that type).
	{
		var api []string
		for _, d := range f.Decls {
			fd, ok := d.(*ast.FuncDecl)
			if !ok || !fd.Name.IsExported() {
				continue
			}
			if fd.Recv == nil {
				res := ""
				if fd.Type.Results != nil {
					var rs []string
					for _, r := range fd.Type.Results.List {
						rs = append(rs, x.src(r.Type))
					}
					res = " -> " + strings.Join(rs, ", ")
				}
				api = append(api, "func "+fd.Name.Name+res)
			} else {
				api = append(api, recvType(fd)+"."+fd.Name.Name)
			}
		}
		// who writes (or takes the address of) the package variables the model treats as constants:
		// closedChan is closed once, in init(), and is the "count is zero" sentinel
		for _, d := range f.Decls {
			fd, ok := d.(*ast.FuncDecl)
			if !ok || fd.Body == nil {
				continue
			}
			writes := false
			ast.Inspect(fd.Body, func(n ast.Node) bool {
				switch t := n.(type) {
				case *ast.AssignStmt:
					for _, l := range t.Lhs {
						if id, ok := l.(*ast.Ident); ok && id.Name == "closedChan" && t.Tok != token.DEFINE {
							writes = true
						}
					}
				case *ast.UnaryExpr:
					if id, ok := t.X.(*ast.Ident); ok && t.Op == token.AND && id.Name == "closedChan" {
						writes = true
					}
				case *ast.IncDecStmt:
					if id, ok := t.X.(*ast.Ident); ok && id.Name == "closedChan" {
						writes = true
					}
				}
				return true
			})
			if writes {
				name := fd.Name.Name
				if fd.Recv != nil {
					name = recvType(fd) + "." + name
				}
				api = append(api, "writes closedChan: "+name)
			}
		}
		sort.Strings(api)
		b.WriteString("\nDefinition gen_api : list string :=\n[")
		for i, a := range api {
			if i > 0 {
				b.WriteString(";\n ")
			}
			b.WriteString(gstr(a))
		}
		b.WriteString("].\n")
	}
	if len(timed) > 0 {
		b.WriteString("\nDefinition gen_timed : list timed_shape :=\n[")
		for i, n := range timed {
			if i > 0 {
				b.WriteString(";\n ")
			}
			b.WriteString(g.timedShape(n, x.siteOps, x.siteFunc))
		}
		b.WriteString("].\n")
	}
	return b.String(), "{\n" + strings.Join(js, ",\n") + "\n}\n"
}

// ---------------------------------------------------------------- WaitCTX / WaitTimeout
//
// timedShape summarises a function of the form
//
//	[x := e]* ; [defer ...] ; select { case <-D: return R1 ; case <-W: return R2 }
//
// as (deadline operand, other operand, R1, R2) with locals replaced by the expressions they were
// defined with and the receiver written "wg", plus every shared-memory operation of the function
// other than the select.  WGTimed.v holds the expected summary of both functions.
func (g *ir2) timedShape(name string, ops map[int][]string, siteFn map[int]string) string {
	bad := func(why string) string {
		return "TimedShape " + gstr(name) + " \"?\" \"?\" \"?\" \"?\" [" + gstr("unrecognised: "+why) + "]"
	}
	fd, ok := g.funcs[name]
	if !ok || fd.Body == nil {
		return bad("no such function")
	}
	recv := ""
	if fd.Recv != nil && len(fd.Recv.List) > 0 && len(fd.Recv.List[0].Names) > 0 {
		recv = fd.Recv.List[0].Names[0].Name
	}
	env := map[string]string{}
	var text func(e ast.Expr) string
	text = func(e ast.Expr) string {
		switch t := e.(type) {
		case *ast.Ident:
			if t.Name == recv {
				return "wg"
			}
			if v, ok := env[t.Name]; ok {
				return v
			}
			return t.Name
		case *ast.ParenExpr:
			return text(t.X)
		case *ast.SelectorExpr:
			return text(t.X) + "." + t.Sel.Name
		case *ast.CallExpr:
			var as []string
			for _, a := range t.Args {
				as = append(as, text(a))
			}
			return text(t.Fun) + "(" + strings.Join(as, ", ") + ")"
		case *ast.BasicLit:
			return t.Value
		}
		return g.x.src(e)
	}
	var sel *ast.SelectStmt
	for _, st := range fd.Body.List {
		switch t := st.(type) {
		case *ast.AssignStmt:
			if t.Tok != token.DEFINE || len(t.Lhs) != 1 || len(t.Rhs) != 1 || sel != nil {
				return bad("statement " + g.x.src(t))
			}
			id, ok := t.Lhs[0].(*ast.Ident)
			if !ok {
				return bad("statement " + g.x.src(t))
			}
			env[id.Name] = text(t.Rhs[0])
		case *ast.DeferStmt:
			if g.hasAtomic(t.Call) || g.hasLocalCall(t.Call) {
				return bad("defer " + g.x.src(t.Call))
			}
		case *ast.SelectStmt:
			if sel != nil {
				return bad("two selects")
			}
			sel = t
		default:
			return bad("statement " + g.x.src(st))
		}
	}
	if sel == nil || len(sel.Body.List) != 2 {
		return bad("not a two-case select")
	}
	type arm struct{ op, ret string }
	var arms []arm
	for _, c := range sel.Body.List {
		cc := c.(*ast.CommClause)
		es, ok := cc.Comm.(*ast.ExprStmt)
		if !ok {
			return bad("case " + g.x.src(cc.Comm))
		}
		u, ok := es.X.(*ast.UnaryExpr)
		if !ok || u.Op != token.ARROW || len(cc.Body) != 1 {
			return bad("case " + g.x.src(cc.Comm))
		}
		r, ok := cc.Body[0].(*ast.ReturnStmt)
		if !ok || len(r.Results) != 1 {
			return bad("case body")
		}
		arms = append(arms, arm{text(u.X), text(r.Results[0])})
	}
	w := -1
	for i, a := range arms {
		if a.op == "wg.Wait()" {
			w = i
		}
	}
	if w < 0 {
		return bad("no case receives from wg.Wait()")
	}
	d := 1 - w
	// other shared-memory operations of the function
	var other []string
	var sites []int
	for sId, fn := range siteFn {
		if fn == name {
			sites = append(sites, sId)
		}
	}
	sort.Ints(sites)
	for _, sId := range sites {
		for _, o := range ops[sId] {
			if o != "select" && o != "recv" {
				other = append(other, gstr(o))
			}
		}
	}
	return "TimedShape " + gstr(name) + " " + gstr(arms[d].op) + " " + gstr(arms[w].op) + " " +
		gstr(arms[d].ret) + " " + gstr(arms[w].ret) + " [" + strings.Join(other, "; ") + "]"
}
