// c14 — hash farm for property C14 (generators: output is a deterministic function of source
// and options).
//
// It writes definition files for the three generators (gsort, genum, gerror) that keep at
// least two of everything the generators hold in a map or sort (types per file, sorters per
// struct, duplicated enum values, traits, imported packages, tagged fields), and generates each
// of them repeatedly, alternating between a fresh package (no output file) and a package in
// which the previous output is still present:
//
//   - in ONE process: worker processes (this binary, -worker) call the generators' own
//     packages (gsort/gen, genum/gen, gerror/gen) exactly the way their CLIs' main() does
//     (flagsfiller over the same argument list, Sanitize*, Parse, Write), two definitions
//     interleaved in one process, `reps` rounds;
//   - in SEPARATE processes: the real CLIs built from the tree under test, run the way
//     go:generate runs them, `reps` times.
//
// Package states before a generation: fresh (no output file), existing (the previous, identical
// output), and STALE outputs: the longer output of a superset configuration (more -types: the
// definition is then regenerated with its first type only and must equal what a fresh package
// gives for that configuration), the shorter output of the subset configuration, a long foreign
// file and a minimal one with the right package clause.
//
// Every chain of generations (regular / stale history, in one process / through the CLI) works
// on its own copy of the package directory, so all chains run concurrently.
//
// One process must also not carry state from one PACKAGE to the next: "twin" genum packages
// declare equally named parsable trait types with different method sets (one decodes itself from
// JSON/text, the other does not) and are generated in one worker process in both orders; their
// in-process outputs are compared with what separate processes write.
//
// After every generation the SHA-256 of the output file is recorded.  Nothing is judged here.
//
//	c14 -seed N -out PREFIX -work DIR -repo SCRATCHREPO -gosum FILE -gsort BIN -genum BIN -gerror BIN
//	    [-n DEFS_PER_GENERATOR] [-reps R]
package main

import (
	"bytes"
	"context"
	"crypto/sha256"
	"encoding/hex"
	"encoding/json"
	"flag"
	"fmt"
	"math/rand/v2"
	"os"
	"os/exec"
	"path/filepath"
	"sort"
	"strconv"
	"strings"
	"sync"
	"time"

	flagsfiller "github.com/itzg/go-flagsfiller"

	"github.com/drshriveer/gtools/gencommon"
	genumgen "github.com/drshriveer/gtools/genum/gen"
	gerrorgen "github.com/drshriveer/gtools/gerror/gen"
	gsortgen "github.com/drshriveer/gtools/gsort/gen"

	"gtverif/internal/gal"
)

// ---------------------------------------------------------------- definitions

// STag / SField / SStruct describe a gsort definition (also handed to the Coq judge).
type STag struct {
	Sorter string `json:"sorter"`
	Prio   int    `json:"prio"`
}
type SField struct {
	Name   string `json:"name"`
	GoType string `json:"gotype"`
	Tags   []STag `json:"tags"`
}
type SStruct struct {
	Type   string   `json:"type"`
	Fields []SField `json:"fields"`
}

// Def is one definition file = one package of the farm.
type Def struct {
	Gen     string         `json:"gen"` // gsort|genum|gerror
	Pkg     string         `json:"pkg"`
	Types   []string       `json:"types"` // the -types argument, in this order
	Opts    []string       `json:"opts"`  // further CLI flags
	Source  string         `json:"source"`
	Structs []SStruct      `json:"structs,omitempty"` // gsort only, in -types order
	Counts  map[string]int `json:"counts"`            // how many of each map-kept thing the definition has
	Batch   string         `json:"batch,omitempty"`   // definitions with the same batch share one worker process, in this order
	First   bool           `json:"first,omitempty"`   // index 0 of its stream (gets the stale sequence in-process in the quick tier)
	Enums   []EnumInfo     `json:"enums,omitempty"`   // genum only
	Errors  []ErrInfo      `json:"errors,omitempty"`  // gerror only
	// file-name flags (every generator has them): where the output goes and where the input is
	// read from, as the CLI is told; "" = the go:generate defaults (GOFILE, <file>.<generator>.go)
	OutName string `json:"out_name,omitempty"` // output file name given through OutFlag
	OutAbs  bool   `json:"out_abs,omitempty"`  // ... as an absolute path
	OutFlag string `json:"out_flag,omitempty"` // spelling of the flag: -out | -out-file
	InFlag  string `json:"in_flag,omitempty"`  // "" (GOFILE only) | -in | -in-file
	InAbs   bool   `json:"in_abs,omitempty"`   // ... with the absolute path of def.go
	Stream  string `json:"stream,omitempty"`   // "flags" for the definitions of the flag stream
	// further hand-written files of the package (file name -> content), e.g. code that uses the
	// generated identifiers and therefore only type-checks once the output exists
	Extra map[string]string `json:"extra,omitempty"`
	Shape string            `json:"shape,omitempty"` // feedback stream: which feedback channel the definition exercises
}

// feedbackDefs: the "feedback" stream.  The generators load the whole package with go/types —
// INCLUDING their own previous output when it is there.  These definitions make the package
// type-check differently with and without that output, in every way the generated identifiers
// can be referred to from the input: a genum trait typed by an enum generated by the same
// invocation (another type of the -types list, or the enum itself), parsable or not; a gsort
// struct with a field of its own generated slice type, keyed through a generated method; a
// gerror struct with a field of another generated error type; and for each a hand-written file
// that calls generated methods (it has type errors while the package is fresh).
func feedbackDefs(seed uint64, i int) []Def {
	r := gal.NewRand(seed*104729 + 15485863*uint64(i+1))
	n := 700 + i
	var out []Def
	// --- genum: trait typed by another enum of the same invocation
	{
		kind, color := fmt.Sprintf("Kind%d", n), fmt.Sprintf("Color%d", n)
		nk := 2 + r.IntN(3)
		var b strings.Builder
		fmt.Fprintf(&b, "//nolint:all // farm definition\npackage fa%d\n\n// %s is generated by the same invocation as %s.\ntype %s int\n\n// Values of %s.\nconst (\n", n, kind, color, kind, kind)
		ki := EnumInfo{Type: kind}
		for k := 0; k < nk; k++ {
			fmt.Fprintf(&b, "\t%sV%d = %s(%d)\n", kind, k, kind, k)
			ki.Values = append(ki.Values, EnumValue{Name: fmt.Sprintf("%sV%d", kind, k), Value: int64(k)})
		}
		trait := "Kind" + color
		fmt.Fprintf(&b, ")\n\n// %s has a trait whose type is %s.\ntype %s int\n\n// Values of %s.\nconst (\n", color, kind, color, color)
		ci := EnumInfo{Type: color, Traits: []string{trait}}
		for k := 0; k < nk; k++ {
			l := "_"
			if k == 0 {
				l = "_" + trait
			}
			fmt.Fprintf(&b, "\t%sV%d, %s = %s(%d), %sV%d\n", color, k, l, color, k, kind, (k+1)%nk)
			ci.Values = append(ci.Values, EnumValue{Name: fmt.Sprintf("%sV%d", color, k), Value: int64(k)})
		}
		b.WriteString(")\n")
		// the enum carrying the trait comes first: the subset configuration of the stale-output
		// history (`-types <first>`) then generates it alone over an output that still declares
		// the methods of the trait's type
		d := Def{Gen: "genum", Pkg: fmt.Sprintf("fa%d", n), Types: []string{color, kind}, Source: b.String(),
			Enums: []EnumInfo{ki, ci}, Stream: "feedback", Shape: "trait-typed-by-enum-of-same-invocation",
			Counts: map[string]int{"types": 2, "traits": 1, "values": 2 * nk, "feedback_definitions": 1}}
		if i%2 == 0 {
			d.Opts = []string{"-parsableByTraits=" + trait}
			d.Shape = "parsable-" + d.Shape
		}
		d.Extra = map[string]string{"use.go": fmt.Sprintf("package fa%d\n\n// useGenerated type-checks only once the output exists.\nfunc useGenerated() string { return %sV0.String() + %sV0.%s().String() }\n", n, color, color, trait)}
		out = append(out, d)
	}
	// --- genum: trait typed by the enum itself
	{
		name := fmt.Sprintf("Step%d", n)
		nv := 3 + r.IntN(2)
		trait := "Next" + name
		var b strings.Builder
		fmt.Fprintf(&b, "//nolint:all // farm definition\npackage fb%d\n\n// %s has a trait of its own type.\ntype %s int\n\n// Values of %s.\nconst (\n", n, name, name, name)
		info := EnumInfo{Type: name, Traits: []string{trait}}
		for k := 0; k < nv; k++ {
			l := "_"
			if k == 0 {
				l = "_" + trait
			}
			fmt.Fprintf(&b, "\t%sV%d, %s = %s(%d), %sV%d\n", name, k, l, name, k, name, (k+1)%nv)
			info.Values = append(info.Values, EnumValue{Name: fmt.Sprintf("%sV%d", name, k), Value: int64(k)})
		}
		b.WriteString(")\n")
		d := Def{Gen: "genum", Pkg: fmt.Sprintf("fb%d", n), Types: []string{name}, Source: b.String(),
			Enums: []EnumInfo{info}, Stream: "feedback", Shape: "trait-typed-by-enum-of-same-invocation",
			Counts: map[string]int{"types": 1, "traits": 1, "values": nv, "feedback_definitions": 1}}
		if i%2 == 0 {
			d.Opts = []string{"-parsableByTraits=" + trait}
			d.Shape = "parsable-" + d.Shape
		}
		out = append(out, d)
	}
	// --- genum: ONE package imported under TWO names, a trait typed through each of them: which
	//     qualifier (and which import lines) the output uses must not depend on map iteration order
	{
		name := fmt.Sprintf("Pace%d", n)
		nv := 2 + r.IntN(3)
		lag, gap := "Lag"+name, "Gap"+name
		var b strings.Builder
		fmt.Fprintf(&b, "//nolint:all // farm definition\npackage fe%d\n\nimport (\n\tt1 \"time\"\n\tt2 \"time\"\n)\n\n// %s has traits typed through two imports of one package.\ntype %s int\n\n// Values of %s.\nconst (\n", n, name, name, name)
		info := EnumInfo{Type: name, Traits: []string{lag, gap}}
		for k := 0; k < nv; k++ {
			l1, l2 := "_", "_"
			if k == 0 {
				l1, l2 = "_"+lag, "_"+gap
			}
			fmt.Fprintf(&b, "\t%sV%d, %s, %s = %s(%d), t1.Duration(%d), t2.Duration(%d)\n", name, k, l1, l2, name, k, k+1, 10*(k+1))
			info.Values = append(info.Values, EnumValue{Name: fmt.Sprintf("%sV%d", name, k), Value: int64(k)})
		}
		b.WriteString(")\n")
		d := Def{Gen: "genum", Pkg: fmt.Sprintf("fe%d", n), Types: []string{name}, Source: b.String(),
			Enums: []EnumInfo{info}, Stream: "feedback", Shape: "one-package-imported-under-two-names",
			Counts: map[string]int{"types": 1, "traits": 2, "values": nv, "imports": 2}}
		if i%2 == 1 {
			d.Opts = []string{"-parsableByTraits=" + lag}
			d.Shape = "parsable-" + d.Shape
		}
		out = append(out, d)
	}
	// --- gsort: a field of the struct's own generated slice type, keyed through a generated method
	{
		typ := fmt.Sprintf("Node%d", n)
		byName, byKids := "ByName"+typ, "ByKids"+typ
		if r.IntN(2) == 0 {
			byKids = "*" + byKids
		}
		src := fmt.Sprintf("package fc%d\n\n// %s refers to the slice type generated for it.\ntype %s struct {\n\tName string `gsort:\"%s,1\" gsort:\"%s,2\"`\n\tKids %s `gsort:\"%s,1,Len()\"`\n\tOpen bool `gsort:\"%s,2\"`\n}\n",
			n, typ, typ, byName, byKids, byName, byKids, byName)
		st := SStruct{Type: typ, Fields: []SField{
			{Name: "Name", GoType: "string", Tags: []STag{{byName, 1}, {byKids, 2}}},
			{Name: "Kids", GoType: byName, Tags: []STag{{byKids, 1}}},
			{Name: "Open", GoType: "bool", Tags: []STag{{byName, 2}}}}}
		out = append(out, Def{Gen: "gsort", Pkg: fmt.Sprintf("fc%d", n), Types: []string{typ}, Source: src, Structs: []SStruct{st},
			Stream: "feedback", Shape: "field-of-generated-type",
			Extra:  map[string]string{"use.go": fmt.Sprintf("package fc%d\n\nimport \"sort\"\n\n// sortNodes type-checks only once the output exists.\nfunc sortNodes(ns []%s) { sort.Sort(%s(ns)) }\n", n, typ, byName)},
			Counts: map[string]int{"types": 1, "sorters": 2, "feedback_definitions": 1}})
	}
	// --- gerror: a field of another generated error type + a caller of generated methods
	{
		a, bb := fmt.Sprintf("OuterErr%d", n), fmt.Sprintf("InnerErr%d", n)
		src := fmt.Sprintf("package fd%d\n\nimport \"github.com/drshriveer/gtools/gerror\"\n\n// %s wraps an %s.\ntype %s struct {\n\tgerror.GError\n\tCause *%s `gerror:\"_,print,clone\"`\n\tCode int `gerror:\"code,print\"`\n}\n\n// %s is generated by the same invocation.\ntype %s struct {\n\tgerror.GError\n\tZone string `gerror:\"_,print,clone\"`\n\tAttempt int `gerror:\"_,clone\"`\n}\n",
			n, a, bb, a, bb, bb, bb)
		d := Def{Gen: "gerror", Pkg: fmt.Sprintf("fd%d", n), Types: shuffled(r, []string{a, bb}), Source: src,
			Errors: []ErrInfo{{Type: a, Fields: []string{"Cause", "Code"}, Printed: 2}, {Type: bb, Fields: []string{"Zone", "Attempt"}, Printed: 1}},
			Stream: "feedback", Shape: "field-of-generated-type",
			Extra:  map[string]string{"use.go": fmt.Sprintf("package fd%d\n\nimport \"github.com/drshriveer/gtools/gerror\"\n\n// rebuild type-checks only once the output exists (toPrimaryType is generated).\nfunc rebuild(e *%s, g *gerror.GError) gerror.Error { return e.toPrimaryType(g) }\n", n, a)},
			Counts: map[string]int{"types": 2, "tagged_fields": 4, "feedback_definitions": 1}}
		// Errors must be listed in -types order for the order observations
		if d.Types[0] != a {
			d.Errors[0], d.Errors[1] = d.Errors[1], d.Errors[0]
		}
		out = append(out, d)
	}
	return out
}

// flagDefs: the "flags" stream.  One definition per generator whose invocation spells out the
// file-name flags in the ways the CLIs accept (short alias / long name, bare name / name in the
// default style / absolute path, input from GOFILE / from the flag) crossed with the
// generators' boolean switches; the index fixes the file-name variant (so that three indices
// cover the three output-name styles with and without an explicit input flag), the rest is drawn.
func flagDefs(seed uint64, i int) []Def {
	r := gal.NewRand(seed*7919 + 1000003*uint64(i+1))
	n := 900 + i
	ds := []Def{gsortDef(r, n), genumDef(r, n), gerrorDef(r, n)}
	for k := range ds {
		d := &ds[k]
		d.Stream = "flags"
		d.Counts["explicit_file_flags"] = 1
		short := d.Gen != "gsort" // gsort's struct tags say `alias:` (not `aliases:`): long names only
		d.OutFlag = "-out-file"
		switch i % 3 {
		case 0: // a name that does not end in the generator's default suffix
			d.OutName = []string{"def_gen.go", "zz_generated.go", d.Gen + "_out.go"}[r.IntN(3)]
			if short {
				d.OutFlag = "-out"
			}
		case 1: // the default style with another base name
			d.OutName = "other." + d.Gen + ".go"
		case 2:
			d.OutName, d.OutAbs = "abs_out.go", true
			if short && r.IntN(2) == 0 {
				d.OutFlag = "-out"
			}
		}
		if i%2 == 1 {
			d.InFlag = "-in-file"
			if d.Gen == "genum" && r.IntN(2) == 0 {
				d.InFlag = "-in"
			}
			d.InAbs = i%4 == 3
		}
		switch d.Gen {
		case "gerror":
			d.Opts = nil
			if i%2 == 1 {
				d.Opts = []string{[]string{"-skipConvertGen", "-skip-convert-gen=true"}[r.IntN(2)]}
			}
		case "genum":
			d.Opts = nil
			for _, f := range [][2]string{{"-json", "-gen-json"}, {"-yaml", "-gen-yaml"}, {"-text", "-gen-text"},
				{"-caseInsensitive", "-case-insensitive"}, {"-disableTraits", "-disable-traits"}} {
				if r.IntN(2) == 0 {
					dflt := !strings.Contains(f[0], "ase") && !strings.Contains(f[0], "raits")
					d.Opts = append(d.Opts, fmt.Sprintf("%s=%v", f[r.IntN(2)], !dflt))
					if !dflt && strings.Contains(f[0], "raits") {
						// traits are not inspected: no trait methods in the output
						for e := range d.Enums {
							d.Enums[e].Traits = nil
						}
					}
				}
			}
		}
	}
	return ds
}

// EnumValue / EnumInfo: what the judge needs to know about a genum definition.
type EnumValue struct {
	Name  string `json:"name"`
	Value int64  `json:"value"`
	Depr  bool   `json:"depr"`
}
type EnumInfo struct {
	Type   string      `json:"type"`
	Values []EnumValue `json:"values"`
	Traits []string    `json:"traits"` // method names
}

// ErrInfo: a gerror type and its tagged field names.
type ErrInfo struct {
	Type    string   `json:"type"`
	Fields  []string `json:"fields"`
	Printed int      `json:"printed"` // how many of them carry the print option
}

func must(err error) {
	if err != nil {
		panic(err)
	}
}

func shuffled[T any](r *rand.Rand, xs []T) []T {
	out := append([]T{}, xs...)
	r.Shuffle(len(out), func(i, j int) { out[i], out[j] = out[j], out[i] })
	return out
}

var sorterWords = []string{"Zeta", "alpha", "Mid", "Beta", "omega", "Kilo", "delta", "Yank", "echo", "Able"}

func gsortDef(r *rand.Rand, n int) Def {
	d := Def{Gen: "gsort", Pkg: fmt.Sprintf("gs%d", n), Counts: map[string]int{}}
	nt := 2 + r.IntN(2)
	typeWords := shuffled(r, []string{"Widget", "apple", "Node", "Zebra", "mango", "Crate"})[:nt]
	var b strings.Builder
	fmt.Fprintf(&b, "package %s\n\n", d.Pkg)
	usedSorter := map[string]bool{}
	for t := 0; t < nt; t++ {
		st := SStruct{Type: fmt.Sprintf("%s%d", typeWords[t], n)}
		nf := 2 + r.IntN(3)
		ns := 2 + r.IntN(2)
		var names []string
		for len(names) < ns {
			w := sorterWords[r.IntN(len(sorterWords))] + st.Type
			if usedSorter[w] {
				continue
			}
			usedSorter[w] = true
			if r.IntN(2) == 0 {
				w = "*" + w
			}
			names = append(names, w)
		}
		for i := 0; i < nf; i++ {
			f := SField{Name: fmt.Sprintf("F%d", i), GoType: []string{"string", "int", "bool", "float64", "uint8"}[r.IntN(5)]}
			st.Fields = append(st.Fields, f)
		}
		for s, name := range names {
			prios := r.Perm(9)
			used := 0
			for i := range st.Fields {
				if r.IntN(3) > 0 || (i == nf-1 && used == 0) {
					st.Fields[i].Tags = append(st.Fields[i].Tags, STag{Sorter: name, Prio: prios[i] - 2})
					used++
				}
			}
			_ = s
		}
		fmt.Fprintf(&b, "// %s is a farm definition.\ntype %s struct {\n", st.Type, st.Type)
		for i := range st.Fields {
			f := &st.Fields[i]
			f.Tags = shuffled(r, f.Tags)
			fmt.Fprintf(&b, "\t%s %s", f.Name, f.GoType)
			if len(f.Tags) > 0 {
				var parts []string
				for _, t := range f.Tags {
					parts = append(parts, fmt.Sprintf(`gsort:"%s,%d"`, t.Sorter, t.Prio))
				}
				fmt.Fprintf(&b, " `%s`", strings.Join(parts, " "))
			}
			b.WriteString("\n")
		}
		b.WriteString("}\n\n")
		d.Structs = append(d.Structs, st)
		d.Types = append(d.Types, st.Type)
		d.Counts["sorters"] += ns
	}
	d.Counts["types"] = nt
	d.Source = b.String()
	return d
}

type traitKind struct {
	imp, alias string
	vals       []string // expressions; %s = package qualifier
}

var traitKinds = []traitKind{
	{"", "", []string{`"red"`, `"green"`, `"blue"`, `"cyan"`, `"teal"`, `"plum"`, `"gold"`, `"gray"`}},
	{"", "", []string{"1", "22", "333", "4", "55", "6", "77", "8"}},
	{"time", "", []string{"%s.Second", "%s.Minute", "%s.Hour", "2 * %s.Second", "%s.Millisecond", "3 * %s.Hour", "%s.Microsecond", "5 * %s.Minute"}},
	{"time", "tm", []string{"%s.Second", "%s.Minute", "%s.Hour", "2 * %s.Second", "%s.Millisecond", "3 * %s.Hour", "%s.Microsecond", "5 * %s.Minute"}},
	{"reflect", "", []string{"%s.Int", "%s.String", "%s.Bool", "%s.Map", "%s.Slice", "%s.Chan", "%s.Func", "%s.Ptr"}},
	{"io/fs", "", []string{"%s.ModeDir", "%s.ModeAppend", "%s.ModeExclusive", "%s.ModeTemporary", "%s.ModeSymlink", "%s.ModeDevice", "%s.ModeNamedPipe", "%s.ModeSocket"}},
	{"go/token", "", []string{"%s.ADD", "%s.SUB", "%s.MUL", "%s.QUO", "%s.REM", "%s.AND", "%s.OR", "%s.XOR"}},
	{"", "", []string{"true", "false", "true", "true", "false", "false", "true", "false"}},
}

func genumDef(r *rand.Rand, n int) Def {
	d := Def{Gen: "genum", Pkg: fmt.Sprintf("ge%d", n), Counts: map[string]int{}}
	nt := 2 + r.IntN(2)
	enumWords := shuffled(r, []string{"Color", "animal", "Shape", "Zone", "mood", "Grade"})[:nt]
	imports := map[string]string{} // path -> alias ("" = none)
	var body strings.Builder
	for t := 0; t < nt; t++ {
		name := fmt.Sprintf("%s%d", strings.ToUpper(enumWords[t][:1])+enumWords[t][1:], n)
		under := []string{"int", "uint8", "int64", "uint", "int16"}[r.IntN(5)]
		signed := !strings.HasPrefix(under, "u")
		nv := 4 + r.IntN(4)
		ntr := r.IntN(4) // traits
		if t == 0 && ntr < 2 {
			ntr = 2
		}
		kinds := make([]traitKind, ntr)
		quals := make([]string, ntr)
		tnames := shuffled(r, []string{"Zed", "alpha", "Hue", "beta", "Rank", "gamma"})[:ntr]
		usedImp := map[string]bool{}
		for j := range kinds {
			for {
				k := traitKinds[r.IntN(len(traitKinds))]
				if k.imp != "" {
					if a, ok := imports[k.imp]; ok && a != k.alias {
						continue // one alias per path per file
					}
				}
				kinds[j] = k
				break
			}
			if k := kinds[j]; k.imp != "" {
				imports[k.imp] = k.alias
				usedImp[k.imp] = true
				quals[j] = k.alias
				if quals[j] == "" {
					quals[j] = filepath.Base(k.imp)
				}
			}
		}
		info := EnumInfo{Type: name}
		fmt.Fprintf(&body, "// %s is a farm enum.\ntype %s %s\n\n// Values of %s.\nconst (\n", name, name, under, name)
		cell := func(j, i int) string {
			v := kinds[j].vals[i%len(kinds[j].vals)]
			if strings.Contains(v, "%s") {
				v = strings.ReplaceAll(v, "%s", quals[j])
			}
			return v
		}
		vname := func(i int) string { return fmt.Sprintf("%sV%d", name, i) }
		// the first line names the traits; its value is the smallest (negative for some signed enums)
		first := "0"
		if signed && r.IntN(3) == 0 {
			first = "-2"
		}
		order := r.Perm(nv) // declaration order differs from value order
		lines := make([]string, 0, nv+4)
		for _, i := range order {
			var lhs, rhs []string
			lhs = append(lhs, vname(i))
			val := strconv.Itoa(i)
			if i == 0 {
				val = first
			}
			rhs = append(rhs, fmt.Sprintf("%s(%s)", name, val))
			iv, _ := strconv.ParseInt(val, 10, 64)
			info.Values = append(info.Values, EnumValue{Name: vname(i), Value: iv})
			for j := 0; j < ntr; j++ {
				if i == 0 {
					info.Traits = append(info.Traits, strings.ToUpper(tnames[j][:1])+tnames[j][1:]+name)
					pre := "_"
					if r.IntN(3) == 0 {
						pre = ""
					}
					lhs = append(lhs, pre+strings.ToUpper(tnames[j][:1])+tnames[j][1:]+name)
				} else {
					lhs = append(lhs, "_")
				}
				rhs = append(rhs, cell(j, i))
			}
			lines = append(lines, "\t"+strings.Join(lhs, ", ")+" = "+strings.Join(rhs, ", "))
		}
		// duplicated values: at least two groups; some deprecated, some not (unsafe groups),
		// with and without trait cells
		ndup := 2 + r.IntN(2)
		for k := 0; k < ndup; k++ {
			target := 1 + r.IntN(nv-1)
			dn := fmt.Sprintf("%sDup%d", name, k)
			ln := ""
			dep := r.IntN(3) == 0
			if dep {
				ln = "\t// Deprecated: use " + vname(target) + ".\n"
				d.Counts["deprecated_duplicates"]++
			} else {
				d.Counts["plain_duplicates"]++
			}
			info.Values = append(info.Values, EnumValue{Name: dn, Value: int64(target), Depr: dep})
			if ntr > 0 && r.IntN(2) == 0 {
				lhs, rhs := []string{dn}, []string{vname(target)}
				for j := 0; j < ntr; j++ {
					lhs = append(lhs, "_")
					rhs = append(rhs, cell(j, nv+k))
				}
				ln += "\t" + strings.Join(lhs, ", ") + " = " + strings.Join(rhs, ", ")
			} else {
				ln += "\t" + dn + " = " + vname(target)
			}
			lines = append(lines, ln)
		}
		body.WriteString(strings.Join(lines, "\n"))
		body.WriteString("\n)\n\n")
		d.Types = append(d.Types, name)
		d.Enums = append(d.Enums, info)
		d.Counts["traits"] += ntr
		d.Counts["duplicate_groups"] += ndup
		d.Counts["values"] += nv
	}
	var b strings.Builder
	fmt.Fprintf(&b, "//nolint:all // farm definition\npackage %s\n\n", d.Pkg)
	if len(imports) > 0 {
		b.WriteString("import (\n")
		paths := make([]string, 0, len(imports))
		for p := range imports {
			paths = append(paths, p)
		}
		sort.Strings(paths)
		paths = shuffled(r, paths)
		for _, p := range paths {
			if imports[p] != "" {
				fmt.Fprintf(&b, "\t%s %q\n", imports[p], p)
			} else {
				fmt.Fprintf(&b, "\t%q\n", p)
			}
		}
		b.WriteString(")\n\n")
	}
	b.WriteString(body.String())
	d.Counts["types"] = nt
	d.Counts["imports"] = len(imports)
	d.Types = shuffled(r, d.Types)
	switch r.IntN(4) {
	case 0:
		d.Opts = []string{"-caseInsensitive"}
	case 1:
		d.Opts = []string{"-json=false"}
	}
	d.Source = b.String()
	return d
}

// genumParsableDef: one enum whose traits are all parsable and come in groups of 2-5 distinct
// named types per underlying kind (string, signed, unsigned, float) — the generator keeps the
// castable parsable traits per kind in collections of their own (GetParsableUnderlying*For*).
func genumParsableDef(r *rand.Rand, n int) Def {
	d := Def{Gen: "genum", Pkg: fmt.Sprintf("gp%d", n), Counts: map[string]int{}}
	name := fmt.Sprintf("Region%d", n)
	type tr struct {
		typ, under, kind string
	}
	var trs []tr
	add := func(kind string, unders []string, words []string, k int) {
		words = shuffled(r, words)
		for i := 0; i < k; i++ {
			trs = append(trs, tr{fmt.Sprintf("%s%d", words[i], n), unders[r.IntN(len(unders))], kind})
		}
		d.Counts["parsable_"+kind+"_types"] += k
	}
	add("string", []string{"string"}, []string{"Code", "Alias", "Zone", "Label", "Key"}, 3+r.IntN(3))
	add("signed", []string{"int", "int32", "int64", "int16"}, []string{"LegacyID", "Rank", "Seq", "Ord"}, 2+r.IntN(3))
	if r.IntN(2) == 0 {
		add("unsigned", []string{"uint", "uint16", "uint32", "uint64"}, []string{"Mask", "Port", "Slot"}, 2+r.IntN(2))
	}
	if r.IntN(2) == 0 {
		add("float", []string{"float64"}, []string{"Weight", "Ratio", "Gain"}, 2+r.IntN(2))
	}
	trs = shuffled(r, trs)
	var b strings.Builder
	fmt.Fprintf(&b, "//nolint:all // farm definition\npackage %s\n\n// trait types.\ntype (\n", d.Pkg)
	for _, t := range trs {
		fmt.Fprintf(&b, "\t%s %s\n", t.typ, t.under)
	}
	fmt.Fprintf(&b, ")\n\n// %s can be parsed from any of its traits.\ntype %s int\n\n// Values of %s.\nconst (\n", name, name, name)
	nv := 3 + r.IntN(3)
	info := EnumInfo{Type: name}
	var parsable []string
	for i := 0; i < nv; i++ {
		lhs := []string{fmt.Sprintf("%sV%d", name, i)}
		rhs := []string{fmt.Sprintf("%s(%d)", name, i)}
		info.Values = append(info.Values, EnumValue{Name: lhs[0], Value: int64(i)})
		for j, t := range trs {
			if i == 0 {
				lhs = append(lhs, "_"+t.typ+"Of"+name)
				info.Traits = append(info.Traits, t.typ+"Of"+name)
				parsable = append(parsable, t.typ+"Of"+name)
			} else {
				lhs = append(lhs, "_")
			}
			switch t.kind {
			case "string":
				rhs = append(rhs, fmt.Sprintf("%s(%q)", t.typ, fmt.Sprintf("%s-%d", strings.ToLower(t.typ), i)))
			case "float":
				rhs = append(rhs, fmt.Sprintf("%s(%d.5)", t.typ, 10*j+i))
			default:
				rhs = append(rhs, fmt.Sprintf("%s(%d)", t.typ, 10*j+i+1))
			}
		}
		fmt.Fprintf(&b, "\t%s = %s\n", strings.Join(lhs, ", "), strings.Join(rhs, ", "))
	}
	b.WriteString(")\n")
	d.Types = []string{name}
	d.Enums = []EnumInfo{info}
	d.Opts = []string{"-parsableByTraits=" + strings.Join(shuffled(r, parsable), ",")}
	d.Counts["types"], d.Counts["traits"], d.Counts["values"] = 1, len(trs), nv
	d.Source = b.String()
	return d
}

// genumTwinDefs: two pairs of packages; in each pair both declare a parsable trait type `Code`
// (same rendered type reference), one with UnmarshalJSON/UnmarshalText methods, one plain.  Pair a
// is generated self-decoding package first, pair b plain package first.
func genumTwinDefs(r *rand.Rand, n int) []Def {
	mk := func(pkg, enum string, methods []string, batch string) Def {
		var b strings.Builder
		fmt.Fprintf(&b, "//nolint:all // farm definition\npackage %s\n\n", pkg)
		if len(methods) > 0 {
			b.WriteString("import \"strings\"\n\n")
		}
		b.WriteString("// Code is a parsable trait type.\ntype Code string\n\n")
		for _, m := range methods {
			switch m {
			case "json":
				b.WriteString("// UnmarshalJSON accepts any case.\nfunc (c *Code) UnmarshalJSON(data []byte) error {\n\t*c = Code(strings.ToLower(strings.Trim(string(data), `\"`)))\n\treturn nil\n}\n\n")
			case "text":
				b.WriteString("// UnmarshalText accepts any case.\nfunc (c *Code) UnmarshalText(data []byte) error {\n\t*c = Code(strings.ToLower(string(data)))\n\treturn nil\n}\n\n")
			}
		}
		fmt.Fprintf(&b, "// %s is parsed by its code.\ntype %s int\n\n// Values.\nconst (\n", enum, enum)
		info := EnumInfo{Type: enum, Traits: []string{"Code"}}
		for i := 0; i < 3; i++ {
			l := "_"
			if i == 0 {
				l = "_Code"
			}
			fmt.Fprintf(&b, "\t%sV%d, %s = %s(%d), Code(\"%s%d\")\n", enum, i, l, enum, i, strings.ToLower(enum[:1]), i)
			info.Values = append(info.Values, EnumValue{Name: fmt.Sprintf("%sV%d", enum, i), Value: int64(i)})
		}
		b.WriteString(")\n")
		return Def{Gen: "genum", Pkg: pkg, Types: []string{enum}, Opts: []string{"-parsableByTraits=Code"},
			Source: b.String(), Batch: batch, Enums: []EnumInfo{info},
			Counts: map[string]int{"types": 1, "traits": 1, "values": 3, "twin_packages": 1}}
	}
	ms := [][]string{{"json"}, {"text"}, {"json", "text"}}[r.IntN(3)]
	a, bb := fmt.Sprintf("tw%da", n), fmt.Sprintf("tw%db", n)
	return []Def{
		mk(a+"x", fmt.Sprintf("Color%d", n), ms, a), mk(a+"y", fmt.Sprintf("Shade%d", n), nil, a),
		mk(bb+"x", fmt.Sprintf("Tone%d", n), nil, bb), mk(bb+"y", fmt.Sprintf("Tint%d", n), ms, bb),
	}
}

func gerrorDef(r *rand.Rand, n int) Def {
	d := Def{Gen: "gerror", Pkg: fmt.Sprintf("gr%d", n), Counts: map[string]int{}}
	nt := 2 + r.IntN(2)
	words := shuffled(r, []string{"Timeout", "auth", "Quota", "parse", "Net", "Zone"})[:nt]
	var b strings.Builder
	fmt.Fprintf(&b, "package %s\n\nimport (\n\t\"time\"\n\n\t\"github.com/drshriveer/gtools/gerror\"\n)\n\n", d.Pkg)
	fmt.Fprintf(&b, "// Status%d is a field type with a String method.\ntype Status%d int\n\nfunc (s Status%d) String() string { return \"status\" }\n\n", n, n, n)
	for t := 0; t < nt; t++ {
		name := fmt.Sprintf("%sErr%d", strings.ToUpper(words[t][:1])+words[t][1:], n)
		nf := 2 + r.IntN(4)
		fnames := shuffled(r, []string{"Zip", "Alpha", "Code", "Msg", "Beta", "Wait", "Kind"})[:nf]
		einfo := ErrInfo{Type: name}
		fmt.Fprintf(&b, "// %s is a farm error.\ntype %s struct {\n\tgerror.GError\n", name, name)
		for i := 0; i < nf; i++ {
			ft := []string{"string", "int", "time.Duration", fmt.Sprintf("Status%d", n), "[]string"}[r.IntN(5)]
			tag := [][]string{{"print", "clone"}, {"print"}, {"clone"}, {"clone", "print"}}[r.IntN(4)]
			pa := "_"
			if r.IntN(3) == 0 {
				pa = strings.ToLower(fnames[i])
			}
			fmt.Fprintf(&b, "\t%s %s `gerror:\"%s,%s\"`\n", fnames[i], ft, pa, strings.Join(tag, ","))
			d.Counts["tagged_fields"]++
			einfo.Fields = append(einfo.Fields, fnames[i])
			if strings.Contains(strings.Join(tag, ","), "print") {
				einfo.Printed++
			}
		}
		b.WriteString("\tInternal string\n}\n\n")
		d.Types = append(d.Types, name)
		d.Errors = append(d.Errors, einfo)
	}
	d.Counts["types"] = nt
	d.Types = shuffled(r, d.Types)
	if r.IntN(3) == 0 {
		d.Opts = []string{"-skipConvertGen"}
	}
	d.Source = b.String()
	return d
}

// ---------------------------------------------------------------- in-process generation

type gen interface {
	Parse() error
	Write() error
}

// generateInProcess mirrors cmd/<generator>/main.go: flagsfiller over the same arguments,
// Sanitize*, Parse, Write.  cwd must be the package directory (as under go:generate).
//
// reuse: the options holder is used for a SECOND Parse + Write ("repeated runs in one process" with the
// holder a regenerate-on-demand driver keeps): what the second run leaves is what is observed, and it
// must be the file one run writes - state kept in the holder between runs must not reach the output.
func generateInProcess(kind, dir, file string, args []string, reuse bool) (outFile string, err error) {
	defer func() {
		if p := recover(); p != nil {
			err = fmt.Errorf("panic: %v", p)
		}
	}()
	must(os.Chdir(dir))
	os.Setenv("PWD", dir)
	os.Setenv("GOFILE", file)
	fs := flag.NewFlagSet(kind, flag.ContinueOnError)
	fs.SetOutput(&bytes.Buffer{})
	filler := flagsfiller.New()
	var g gen
	var in, out *string
	var ntypes func() int
	switch kind {
	case "gsort":
		x := &gsortgen.Generate{}
		g, in, out, ntypes = x, &x.InFile, &x.OutFile, func() int { return len(x.Types) }
		err = filler.Fill(fs, x)
	case "genum":
		x := &genumgen.Generate{}
		g, in, out, ntypes = x, &x.InFile, &x.OutFile, func() int { return len(x.Types) }
		err = filler.Fill(fs, x)
	default:
		x := &gerrorgen.Generate{}
		g, in, out, ntypes = x, &x.InFile, &x.OutFile, func() int { return len(x.Types) }
		err = filler.Fill(fs, x)
	}
	if err != nil {
		return "", err
	}
	if err = fs.Parse(args); err != nil {
		return "", err
	}
	*in = gencommon.SanitizeSourceFile(*in)
	*out = gencommon.SanitizeOutFile(*out, *in, kind)
	if ntypes() == 0 {
		return *out, fmt.Errorf("type is required")
	}
	if err = g.Parse(); err != nil {
		return *out, fmt.Errorf("parsing failed: %w", err)
	}
	if err = g.Write(); err != nil {
		return *out, fmt.Errorf("writing failed: %w", err)
	}
	if reuse {
		if err = g.Parse(); err != nil {
			return *out, fmt.Errorf("parsing failed on the reused holder: %w", err)
		}
		if err = g.Write(); err != nil {
			return *out, fmt.Errorf("writing failed on the reused holder: %w", err)
		}
	}
	return *out, nil
}

type job struct {
	Kind    string   `json:"kind"`
	Dir     string   `json:"dir"`
	Pkg     string   `json:"pkg"`
	Args    []string `json:"args"`
	SubArgs []string `json:"sub_args,omitempty"` // the same definition with its first type only
	Steps   []step   `json:"steps"`              // this chain's history
	Chain   string   `json:"chain"`              // which chain of the definition this job is
	Outs    string   `json:"outs"`               // where distinct outputs are kept (for the replay's diff)
	Out     string   `json:"out"`                // the file the generator is to write (default name or the -out flag's)
}

type obs struct {
	Mode  string `json:"mode"`  // inproc|cli
	State string `json:"state"` // package state before the generation
	Cfg   string `json:"cfg"`   // full|sub
	Sha   string `json:"sha"`   // sha256 of the output file, "" if none
	Err   string `json:"err,omitempty"`
	Chain string `json:"chain"` // the chain (own copy of the package directory) the generation belongs to
	Seq   int    `json:"seq"`   // position in that chain
}

// step of a definition's generation history.
type step struct {
	State string `json:"state"`
	Cfg   string `json:"cfg"`
	Prep  string `json:"prep"` // remove|keep|long|short
}

// regularPlan: `reps` generations alternating fresh / existing package states.
func regularPlan(reps int, firstFresh bool) []step {
	var st []step
	for k := 0; k < reps; k++ {
		if (k%2 == 0) == firstFresh {
			st = append(st, step{"fresh", "full", "remove"})
		} else {
			st = append(st, step{"existing", "full", "keep"})
		}
	}
	return st
}

// stalePlan: the history over stale previous outputs (see the file comment).
func stalePlan(j job) []step {
	var st []step
	if j.SubArgs != nil {
		st = append(st,
			step{"fresh", "sub", "remove"},
			step{"stale-shorter-output-of-subset", "full", "keep"},
			step{"stale-longer-output-of-superset", "sub", "keep"},
			step{"stale-long-foreign-file", "sub", "long"},
			step{"stale-minimal-file", "sub", "short"})
	} else {
		st = append(st, step{"fresh", "full", "remove"})
	}
	return append(st, step{"stale-long-foreign-file", "full", "long"}, step{"stale-minimal-file", "full", "short"})
}

func prepare(j job, prep string) {
	switch prep {
	case "remove":
		os.Remove(outPath(j))
	case "short":
		must(os.WriteFile(outPath(j), []byte("package "+j.Pkg+"\n"), 0o644))
	case "long":
		var b strings.Builder
		fmt.Fprintf(&b, "// Code generated by %s DO NOT EDIT.\npackage %s\n\n", j.Kind, j.Pkg)
		for i := 0; b.Len() < 300000; i++ {
			fmt.Fprintf(&b, "// stale line %06d of an output that sat in the package before this generation ....................\n", i)
		}
		must(os.WriteFile(outPath(j), []byte(b.String()), 0o644))
	}
}

// actualState: "keep what is there" at the start of a chain finds no output: the package is fresh.
func actualState(j job, st step) step {
	if st.Prep == "keep" {
		if _, err := os.Stat(outPath(j)); err != nil {
			st.State = "fresh"
		}
	}
	return st
}

// record hashes the output and keeps one copy of every distinct output.
func record(j job, mode string, seq int, st step, errText string) obs {
	o := obs{Mode: mode, State: st.State, Cfg: st.Cfg, Sha: hashFile(outPath(j)), Err: errText, Chain: j.Chain, Seq: seq}
	if o.Sha != "" {
		p := filepath.Join(j.Outs, st.Cfg+"-"+o.Sha)
		if _, err := os.Stat(p); err != nil {
			if b, err := os.ReadFile(outPath(j)); err == nil {
				os.MkdirAll(j.Outs, 0o755)
				os.WriteFile(p, b, 0o644)
			}
		}
	}
	return o
}

func argsOf(j job, cfg string) []string {
	if cfg == "sub" {
		return j.SubArgs
	}
	return j.Args
}

func outPath(j job) string {
	if j.Out != "" {
		return j.Out
	}
	return filepath.Join(j.Dir, "def."+j.Kind+".go")
}

func hashFile(p string) string {
	b, err := os.ReadFile(p)
	if err != nil {
		return ""
	}
	h := sha256.Sum256(b)
	return hex.EncodeToString(h[:])
}

func errClass(err error) string {
	if err == nil {
		return ""
	}
	s := err.Error()
	if len(s) > 160 {
		s = s[:160]
	}
	return s
}

// worker: the histories of all jobs, interleaved step by step, in this one process.
func worker(jobsJSON string) {
	var jobs []job
	must(json.Unmarshal([]byte(jobsJSON), &jobs))
	res := make([][]obs, len(jobs))
	longest := 0
	for _, j := range jobs {
		longest = max(longest, len(j.Steps))
	}
	for k := 0; k < longest; k++ {
		for i, j := range jobs {
			if k >= len(j.Steps) {
				continue
			}
			st := j.Steps[k]
			prepare(j, st.Prep)
			st = actualState(j, st)
			// every third step of a history runs Parse + Write twice on one options holder
			_, err := generateInProcess(j.Kind, j.Dir, "def.go", argsOf(j, st.Cfg), k%3 == 1)
			res[i] = append(res[i], record(j, "inproc", k, st, errClass(err)))
		}
	}
	must(json.NewEncoder(os.Stdout).Encode(res))
}

// runCmd: every child (a generator CLI, go list) runs under a watchdog; a generator that does not
// return is killed and the generation is recorded with exit code 124 (an error text that differs
// from the other generations of the definition: a failing input).
func runCmd(dir string, env []string, name string, args ...string) (int, string) {
	ctx, cancel := context.WithTimeout(context.Background(), 5*time.Minute)
	defer cancel()
	c := exec.CommandContext(ctx, name, args...)
	c.WaitDelay = 5 * time.Second
	c.Dir = dir
	c.Env = append(append([]string{}, os.Environ()...), env...)
	var buf bytes.Buffer
	c.Stdout, c.Stderr = &buf, &buf
	err := c.Run()
	if ctx.Err() == context.DeadlineExceeded {
		return 124, buf.String() + "\nkilled: did not finish within 5m"
	}
	if err == nil {
		return 0, buf.String()
	}
	if ee, ok := err.(*exec.ExitError); ok {
		return ee.ExitCode(), buf.String()
	}
	return -1, buf.String() + err.Error()
}

// ---------------------------------------------------------------- main

type jcase struct {
	Cfg     string      `json:"cfg"` // full: the definition as given; sub: its first type only (stale-output histories)
	Kind    string      `json:"kind"`
	Def     Def         `json:"def"`
	Obs     []obs       `json:"obs"`
	Outputs []string    `json:"outputs"`          // the distinct outputs seen (first two kept in full)
	Blocks  [][2]string `json:"blocks,omitempty"` // gsort: (sorter, type) per block of the output, file order
	// genum: per trait method and per _XValues list the value names in file order;
	// genum: per enum the trait method names in file order; gerror: per Error() / toPrimaryType the field names
	ValueOrders [][]string `json:"value_orders,omitempty"`
	NameOrders  [][]string `json:"name_orders,omitempty"`
	// how long each name order must be if the extraction saw everything (trait methods per
	// enum, printed fields per error type): a shorter list means the harness no longer reads
	// the output correctly (reported as such, never silently passed)
	NameOrderSizes []int `json:"name_order_sizes,omitempty"`
}

// orderObs extracts the order-bearing lists from a generated file.
func orderObs(d *Def, src string) (valueOrders, nameOrders [][]string) {
	lines := strings.Split(src, "\n")
	switch d.Gen {
	case "genum":
		for _, e := range d.Enums {
			isTrait := map[string]bool{}
			for _, t := range e.Traits {
				isTrait[t] = true
			}
			var traitOrder []string
			for i := 0; i < len(lines); i++ {
				t := strings.TrimSpace(lines[i])
				// var _XValues = []X{ ... }
				if t == "var _"+e.Type+"Values = []"+e.Type+"{" {
					var vs []string
					for i++; i < len(lines) && strings.TrimSpace(lines[i]) != "}"; i++ {
						vs = append(vs, strings.TrimSuffix(strings.TrimSpace(lines[i]), ","))
					}
					valueOrders = append(valueOrders, vs)
					continue
				}
				pre := "func (e " + e.Type + ") "
				if strings.HasPrefix(t, pre) {
					name := t[len(pre):]
					if k := strings.Index(name, "("); k > 0 {
						name = name[:k]
					}
					if !isTrait[name] {
						continue
					}
					traitOrder = append(traitOrder, name)
					var cs []string
					for i++; i < len(lines) && lines[i] != "}"; i++ {
						c := strings.TrimSpace(lines[i])
						if strings.HasPrefix(c, "case ") && strings.HasSuffix(c, ":") {
							cs = append(cs, strings.TrimSuffix(strings.TrimPrefix(c, "case "), ":"))
						}
					}
					valueOrders = append(valueOrders, cs)
				}
			}
			nameOrders = append(nameOrders, traitOrder)
		}
	case "gerror":
		for _, e := range d.Errors {
			in := false
			var fs []string
			for _, ln := range lines {
				if strings.HasPrefix(ln, "func (e *"+e.Type+") Error() string {") {
					in = true
					continue
				}
				if in && ln == "}" {
					break
				}
				if in {
					// result += fmt.Sprintf(<format...>, e.<Field>) + separator
					if k := strings.LastIndex(ln, ", e."); k > 0 && strings.Contains(ln, "fmt.Sprintf(") {
						f := ln[k+len(", e."):]
						if j := strings.IndexAny(f, ") ,"); j > 0 {
							fs = append(fs, f[:j])
						}
					}
				}
			}
			nameOrders = append(nameOrders, fs)
		}
	}
	return valueOrders, nameOrders
}

func galStr(s string) string { return gal.Str(s) }

func main() {
	seed := flag.Uint64("seed", 1, "PRNG seed")
	prefix := flag.String("out", "c14", "output prefix")
	work := flag.String("work", "", "scratch directory for the farm module")
	repo := flag.String("repo", "", "scratch copy of the repository (replace targets)")
	gosum := flag.String("gosum", "", "go.sum to use for the farm module")
	n := flag.Int("n", 4, "definitions per generator")
	reps := flag.Int("reps", 5, "generations per definition and mode")
	isWorker := flag.Bool("worker", false, "internal: run jobs in-process")
	jobsArg := flag.String("jobs", "", "internal: JSON jobs")
	defsFile := flag.String("defs", "", "JSON list of definitions to run instead of random ones")
	only := flag.String("only", "gsort,genum,gerror", "generators to draw definitions for")
	staleWhich := flag.String("stale", "first", "which definitions get the stale-output histories (one in-process, one through the CLI): first (index 0 of each stream)|all")
	twinEvery := flag.Int("twin-every", 3, "draw a set of twin genum packages at every k-th index")
	flagStream := flag.Bool("flag-stream", true, "also draw the definitions of the file-name-flag stream")
	feedbackEvery := flag.Int("feedback-every", 3, "draw the definitions of the feedback stream at every k-th index (0 = never)")
	bins := map[string]*string{
		"gsort":  flag.String("gsort", "", "gsort CLI"),
		"genum":  flag.String("genum", "", "genum CLI"),
		"gerror": flag.String("gerror", "", "gerror CLI"),
	}
	flag.Parse()
	if *isWorker {
		worker(*jobsArg)
		return
	}
	r := gal.NewRand(*seed)
	var defs []Def
	if *defsFile != "" {
		b, err := os.ReadFile(*defsFile)
		must(err)
		must(json.Unmarshal(b, &defs))
	} else {
		for i := 0; i < *n; i++ {
			// all three are always drawn (so that a definition depends on the seed and its index
			// only), the -only filter drops the unwanted ones
			ds := []Def{gsortDef(r, i), genumDef(r, i), gerrorDef(r, i), genumParsableDef(r, i)}
			tw := genumTwinDefs(r, i)
			if i%*twinEvery == 0 {
				ds = append(ds, tw...)
			}
			if *flagStream {
				ds = append(ds, flagDefs(*seed, i)...)
			}
			if *feedbackEvery > 0 && i%*feedbackEvery == 0 {
				ds = append(ds, feedbackDefs(*seed, i)...)
			}
			for _, d := range ds {
				d.First = i == 0 && d.Batch == "" && (d.Stream != "feedback" || d.Gen == "genum")
				if strings.Contains(","+*only+",", ","+d.Gen+",") {
					defs = append(defs, d)
				}
			}
		}
	}
	// the farm module
	must(os.RemoveAll(*work))
	must(os.MkdirAll(*work, 0o755))
	mods := []string{"gconfig", "gencommon", "genum", "gerror", "gsort", "gsync", "log", "rutils", "set"}
	var gm strings.Builder
	gm.WriteString("module farm\n\ngo 1.23.0\n\nrequire (\n\tgithub.com/drshriveer/gtools/genum v0.0.0\n\tgithub.com/drshriveer/gtools/gerror v0.0.0\n)\n\n")
	for _, m := range mods {
		if _, err := os.Stat(filepath.Join(*repo, m, "go.mod")); err == nil {
			fmt.Fprintf(&gm, "replace github.com/drshriveer/gtools/%s => %s\n", m, filepath.Join(*repo, m))
		}
	}
	must(os.WriteFile(filepath.Join(*work, "go.mod"), []byte(gm.String()), 0o644))
	sum, err := os.ReadFile(*gosum)
	must(err)
	must(os.WriteFile(filepath.Join(*work, "go.sum"), sum, 0o644))
	// gerror loads "../" next to the package: give the module root a package
	must(os.WriteFile(filepath.Join(*work, "doc.go"), []byte("// Package farm is the root of the definition farm.\npackage farm\n\nimport (\n\t_ \"github.com/drshriveer/gtools/genum\"\n\t_ \"github.com/drshriveer/gtools/gerror\"\n)\n"), 0o644))
	// Every definition has up to four chains, each in its own copy of the package directory so
	// that they can run concurrently: regular in-process (shared worker process per batch),
	// regular CLI, and for the chosen definitions the stale-output history in-process and CLI.
	type chain struct {
		def  int
		j    job
		mode string
	}
	mkJob := func(i int, suffix string, steps func(job) []step) job {
		d := &defs[i]
		dir := filepath.Join(*work, d.Pkg+suffix)
		must(os.MkdirAll(dir, 0o755))
		must(os.WriteFile(filepath.Join(dir, "def.go"), []byte(d.Source), 0o644))
		for name, text := range d.Extra {
			must(os.WriteFile(filepath.Join(dir, name), []byte(text), 0o644))
		}
		// the file-name flags (each chain has its own directory, so absolute paths differ per chain)
		var fileFlags []string
		if d.InFlag != "" {
			in := "def.go"
			if d.InAbs {
				in = filepath.Join(dir, in)
			}
			fileFlags = append(fileFlags, d.InFlag, in)
		}
		out := ""
		if d.OutName != "" {
			out = filepath.Join(dir, d.OutName)
			if d.OutAbs {
				fileFlags = append(fileFlags, d.OutFlag+"="+out)
			} else {
				fileFlags = append(fileFlags, d.OutFlag+"="+d.OutName)
			}
		}
		opts := append(append([]string{}, d.Opts...), fileFlags...)
		j := job{Kind: d.Gen, Dir: dir, Pkg: d.Pkg, Args: append([]string{"-types", strings.Join(d.Types, ",")}, opts...),
			Outs: filepath.Join(*work, "outs", d.Pkg), Chain: "regular" + suffix, Out: out}
		if len(d.Types) >= 2 {
			j.SubArgs = append([]string{"-types", d.Types[0]}, opts...)
		}
		j.Steps = steps(j)
		return j
	}
	regular := make([]job, len(defs))
	var singles []chain // in-process stale chains (one worker process each) and all CLI chains
	for i := range defs {
		regular[i] = mkJob(i, "", func(job) []step { return regularPlan(*reps, true) })
		singles = append(singles, chain{i, mkJob(i, "_c", func(job) []step { return regularPlan(*reps, false) }), "cli"})
		if *staleWhich == "all" || defs[i].First {
			if *staleWhich == "all" || (defs[i].Stream != "flags" && defs[i].Stream != "feedback") {
				singles = append(singles, chain{i, mkJob(i, "_is", stalePlan), "inproc"})
			}
			singles = append(singles, chain{i, mkJob(i, "_cs", stalePlan), "cli"})
		}
	}
	// resolve the module graph once (writes go.mod/go.sum additions) before anything runs in parallel
	if rc, out := runCmd(*work, nil, "go", "list", "./..."); rc != 0 {
		fmt.Fprintln(os.Stderr, "go list in the farm failed:\n"+out)
		os.Exit(1)
	}
	all := make([][]obs, len(defs))
	// regular in-process batches: definitions of one batch (twin packages), else two neighbouring
	// definitions (of different generators), share a worker process
	var batches [][]int
	for i := 0; i < len(defs); {
		j := i + 1
		if defs[i].Batch != "" {
			for j < len(defs) && defs[j].Batch == defs[i].Batch {
				j++
			}
		} else if j < len(defs) && defs[j].Batch == "" {
			j++
		}
		idx := []int{}
		for k := i; k < j; k++ {
			idx = append(idx, k)
		}
		batches = append(batches, idx)
		i = j
	}
	self, err := os.Executable()
	must(err)
	var wg sync.WaitGroup
	sem := make(chan struct{}, 16)
	var mu sync.Mutex
	fail := ""
	runWorker := func(idx []int, bj []job) {
		defer wg.Done()
		sem <- struct{}{}
		defer func() { <-sem }()
		jb, _ := json.Marshal(bj)
		wctx, wcancel := context.WithTimeout(context.Background(), 15*time.Minute)
		defer wcancel()
		c := exec.CommandContext(wctx, self, "-worker", "-jobs", string(jb))
		c.WaitDelay = 5 * time.Second
		var so, se bytes.Buffer
		c.Stdout, c.Stderr = &so, &se
		err := c.Run()
		var res [][]obs
		if err == nil {
			err = json.Unmarshal(so.Bytes(), &res)
		}
		mu.Lock()
		defer mu.Unlock()
		if err != nil || len(res) != len(idx) {
			// the in-process generations crashed (a panic outside recover, os.Exit, log.Fatal) or
			// hung: the definitions keep an observation saying so — it differs from what the
			// CLIs produce, so the input is reported, not lost
			msg := fmt.Sprintf("in-process generation did not complete: %v", err)
			if wctx.Err() == context.DeadlineExceeded {
				msg = "in-process generation did not return within 15m (killed)"
			}
			tail := strings.TrimSpace(se.String())
			if len(tail) > 100 {
				tail = tail[len(tail)-100:]
			}
			for _, i := range idx {
				all[i] = append(all[i], obs{Mode: "inproc", State: "fresh", Cfg: "full", Err: msg + " " + tail, Chain: "regular", Seq: 0})
			}
			return
		}
		for k, i := range idx {
			all[i] = append(all[i], res[k]...)
		}
	}
	for _, idx := range batches {
		bj := make([]job, len(idx))
		for k, i := range idx {
			bj[k] = regular[i]
		}
		wg.Add(1)
		go runWorker(idx, bj)
	}
	for _, ch := range singles {
		wg.Add(1)
		if ch.mode == "inproc" {
			go runWorker([]int{ch.def}, []job{ch.j})
			continue
		}
		// separate processes: the real CLI, the way go:generate runs it
		go func(ch chain) {
			defer wg.Done()
			sem <- struct{}{}
			defer func() { <-sem }()
			j := ch.j
			for k, st := range j.Steps {
				prepare(j, st.Prep)
				st = actualState(j, st)
				rc, log := runCmd(j.Dir, []string{"GOFILE=def.go", "PWD=" + j.Dir, "GOPACKAGE=" + j.Pkg}, *bins[j.Kind], argsOf(j, st.Cfg)...)
				errText := ""
				if rc != 0 {
					lines := strings.Split(strings.TrimSpace(log), "\n")
					last := lines[len(lines)-1]
					if k := strings.Index(last, " "); k > 0 && len(last) > 20 {
						last = last[20:] // drop the log timestamp
					}
					errText = fmt.Sprintf("exit %d: %s", rc, last)
					if len(errText) > 160 {
						errText = errText[:160]
					}
				}
				o := record(j, "cli", k, st, errText)
				mu.Lock()
				all[ch.def] = append(all[ch.def], o)
				mu.Unlock()
			}
		}(ch)
	}
	wg.Wait()
	if fail != "" {
		fmt.Fprintln(os.Stderr, fail)
		os.Exit(1)
	}
	jobs := regular
	for i := range all {
		sort.SliceStable(all[i], func(a, b int) bool {
			x, y := all[i][a], all[i][b]
			if x.Mode != y.Mode {
				return x.Mode > y.Mode // inproc before cli
			}
			if x.Chain != y.Chain {
				return x.Chain < y.Chain
			}
			return x.Seq < y.Seq
		})
	}
	// distinct outputs per definition and configuration
	outputsOf := func(i int, cfg string) map[string]string {
		m := map[string]string{}
		ents, _ := os.ReadDir(jobs[i].Outs)
		for _, e := range ents {
			if strings.HasPrefix(e.Name(), cfg+"-") {
				b, _ := os.ReadFile(filepath.Join(jobs[i].Outs, e.Name()))
				m[strings.TrimPrefix(e.Name(), cfg+"-")] = string(b)
			}
		}
		return m
	}
	out := gal.NewOut(*prefix)
	for i := range defs {
		for _, cfg := range []string{"full", "sub"} {
			d := &defs[i]
			var cobs []obs
			for _, o := range all[i] {
				if o.Cfg == cfg {
					cobs = append(cobs, o)
				}
			}
			if len(cobs) == 0 {
				continue
			}
			kind := d.Gen
			if cfg == "sub" {
				kind += "/sub"
			}
			jc := jcase{Cfg: cfg, Kind: kind, Def: *d, Obs: cobs}
			outs := outputsOf(i, cfg)
			// the output of the first generation into a fresh package first (the reference)
			ref := ""
			for _, o := range cobs {
				if o.State == "fresh" && o.Sha != "" {
					ref = o.Sha
					break
				}
			}
			shas := make([]string, 0)
			for h := range outs {
				if h != ref {
					shas = append(shas, h)
				}
			}
			sort.Strings(shas)
			if ref != "" {
				shas = append([]string{ref}, shas...)
			}
			outputs := map[int]map[string]string{i: outs}
			for k, h := range shas {
				if k < 2 {
					jc.Outputs = append(jc.Outputs, outputs[i][h])
				}
			}
			if cfg == "sub" {
				shas = nil // order observations are made on the full configuration only
			}
			if d.Gen == "gsort" && len(shas) > 0 {
				for _, ln := range strings.Split(outputs[i][shas[0]], "\n") {
					t := strings.TrimSpace(ln)
					if strings.HasPrefix(t, "// ") && strings.Contains(t, " implements a sort.Sort interface for ") {
						f := strings.Fields(t)
						jc.Blocks = append(jc.Blocks, [2]string{f[1], strings.TrimSuffix(f[len(f)-1], ".")})
					}
				}
			}
			if len(shas) > 0 {
				jc.ValueOrders, jc.NameOrders = orderObs(d, outputs[i][shas[0]])
				for _, e := range d.Enums {
					jc.NameOrderSizes = append(jc.NameOrderSizes, len(e.Traits))
				}
				for _, e := range d.Errors {
					jc.NameOrderSizes = append(jc.NameOrderSizes, e.Printed)
				}
			}
			// Gallina: hashes (an empty string = no output file; errors folded into the string so
			// that "same error every time" is also "equal")
			hs := gal.ListOf(cobs, func(o obs) string { return galStr(o.Sha + "|" + o.Err) })
			types := gal.ListOf(d.Structs, func(s SStruct) string {
				return gal.Pair(galStr(s.Type), gal.ListOf(s.Fields, func(f SField) string {
					return "{| fd_name := " + galStr(f.Name) + "; fd_isbool := " + gal.Bool(f.GoType == "bool") +
						"; fd_tags := " + gal.ListOf(f.Tags, func(t STag) string {
						return "{| tg_sorter := " + galStr(t.Sorter) + "; tg_prio := " + gal.Z(int64(t.Prio)) + "; tg_acc := " + galStr("") + " |}"
					}) + " |}"
				}))
			})
			blocks := gal.ListOf(jc.Blocks, func(b [2]string) string { return gal.Pair(galStr(b[0]), galStr(b[1])) })
			evOf := map[string]string{}
			for _, e := range d.Enums {
				for _, v := range e.Values {
					bits := "(" + strconv.FormatInt(v.Value, 10) + ")%Z"
					if v.Value < 0 { // the uint64 bits of a negative constant
						bits = "(18446744073709551616 + (" + strconv.FormatInt(v.Value, 10) + "))%Z"
					}
					evOf[v.Name] = "{| ev_name := " + galStr(v.Name) + "; ev_value := " + bits + "; ev_signed := " + gal.Bool(v.Value < 0) +
						"; ev_depr := " + gal.Bool(v.Depr) + " |}"
				}
			}
			vorders := gal.ListOf(jc.ValueOrders, func(vs []string) string {
				return gal.ListOf(vs, func(n string) string {
					if g, ok := evOf[n]; ok {
						return g
					}
					return "{| ev_name := " + galStr("?"+n) + "; ev_value := 0%Z; ev_signed := false; ev_depr := false |}"
				})
			})
			norders := gal.ListOf(jc.NameOrders, func(ns []string) string { return gal.ListOf(ns, galStr) })
			g := "{| gd_kind := " + galStr(kind) + "; gd_hashes := " + hs + "; gd_types := " + types + "; gd_blocks := " + blocks +
				"; gd_value_orders := " + vorders + "; gd_name_orders := " + norders + " |}"
			out.Case(g, jc)
		}
	}
	out.Close()
}
