//go:build !c18conc

// The real program (main.go, tag c18conc) is built by ./check C18 against the scratch copy of
// package log that was instrumented with scheduler hooks; without the tag nothing is needed.
package main

func main() {}
