//go:build c18conc

// c18conc — schedule replay for package log: goroutines apply WithFields / SetLevel to distinct
// contexts sharing one holder; the scratch copy of log/context_utils.go was instrumented by
// xlate_logconc so that the baton-passing scheduler decides, before every atomic operation on
// the holder, which goroutine performs the next one.  After every step the shared logger is
// probed at every level through an in-memory core.
//
//	c18conc -seed N -out PREFIX -mode corpus|random|replay|search -n COUNT [-in FILE] [-final] [-budget K]
package main

import (
	"bufio"
	"context"
	"encoding/json"
	"flag"
	"fmt"
	"math/rand/v2"
	"os"
	"time"

	"go.uber.org/zap"
	"go.uber.org/zap/zapcore"
	"go.uber.org/zap/zaptest/observer"

	"github.com/drshriveer/gtools/log"

	"gtverif/internal/gal"
	"gtverif/internal/logsched"
	"gtverif/internal/logvocab"
)

type cop struct {
	Op     string   `json:"op"` // With | SetLevel | Child (ChildLogger: reads the shared holder once)
	Fields []uint64 `json:"fields,omitempty"`
	Level  int      `json:"level"`
}

type cobs struct {
	Fields []uint64     `json:"fields"`
	Mask   uint64       `json:"mask"`
	Full   [][][]uint64 `json:"full,omitempty"`
}

type initSpec struct {
	Level  int      `json:"level"`
	Fields []uint64 `json:"fields"`
	Wrap   *int     `json:"wrap,omitempty"`
	// Steps: the initial fields are collected one WithFields call at a time, with no Log call in
	// between (the same initial logger, reached by another history)
	Steps bool `json:"steps,omitempty"`
}

type ccase struct {
	Kind     string     `json:"kind"`
	Init     initSpec   `json:"init"`
	Progs    [][]cop    `json:"progs"`
	Tail     []cop      `json:"tail,omitempty"`   // issued by one more goroutine after all of Progs have returned
	Prefix   []int      `json:"prefix,omitempty"` // replay input: schedule to follow first (parallel part)
	Sched    []int      `json:"sched"`
	Obs      []cobs     `json:"obs"`
	Done     bool       `json:"done"`
	Children []childObs `json:"children"`
	Err      string     `json:"err,omitempty"`
}

// childObs: the logger of a context created by ChildLogger during the run (operation Idx of
// goroutine T), probed after the schedule; listed in the order of creation.
type childObs struct {
	T   int  `json:"t"`
	Idx int  `json:"idx"`
	Obs cobs `json:"obs"`
}

func zfield(k uint64) zap.Field { return logvocab.Field(k) }

func zfields(ks []uint64) []zap.Field {
	out := make([]zap.Field, len(ks))
	for i, k := range ks {
		out[i] = zfield(k)
	}
	return out
}

func fieldID(f zapcore.Field) uint64 { return logvocab.ID(f) }

// opsDone[t]: calls goroutine t has completed in the current run (written by the goroutine that
// holds the baton, read by the controller while everybody is parked)
var opsDone []int

var levels = []zapcore.Level{zapcore.DebugLevel, zapcore.InfoLevel, zapcore.WarnLevel, zapcore.ErrorLevel}
var levelsZ = levels

type otherKey struct{ n int }

func same(a, b []uint64) bool {
	if len(a) != len(b) {
		return false
	}
	for i := range a {
		if a[i] != b[i] {
			return false
		}
	}
	return true
}

func probe(ctx context.Context, logs *observer.ObservedLogs) cobs {
	// the probe runs on the controller's goroutine while the others are parked: whatever Log(ctx)
	// does to the holder must not hand the baton to anybody
	saved := log.VerifYield
	log.VerifYield = nil
	defer func() { log.VerifYield = saved }()
	logs.TakeAll()
	full := make([][][]uint64, len(levels))
	var mask uint64
	var first []uint64
	have, regular := false, true
	for i, l := range levels {
		log.Log(ctx).Log(l, "probe")
		ents := logs.TakeAll()
		if len(ents) == 1 {
			mask |= 1 << uint(i)
		} else if len(ents) > 1 {
			regular = false
		}
		full[i] = make([][]uint64, len(ents))
		for j, e := range ents {
			ids := make([]uint64, len(e.Context))
			for k, f := range e.Context {
				ids[k] = fieldID(f)
			}
			full[i][j] = ids
			if e.Level != l {
				regular = false
			}
			if !have {
				first, have = ids, true
			} else if !same(first, ids) {
				regular = false
			}
		}
	}
	if first == nil {
		first = []uint64{}
	}
	if regular {
		return cobs{Fields: first, Mask: mask}
	}
	return cobs{Fields: []uint64{}, Mask: mask, Full: full}
}

// picker chooses the next goroutine; it sees which goroutines are still running.
type picker func(step int, s *logsched.Sched, n int) int

const maxSteps = 600

// runCase replays: first the prefix, then whatever pick says, until all goroutines returned.
func runCase(in initSpec, progs [][]cop, tail []cop, prefix []int, pick picker) (sched []int, obs []cobs, done bool, kids []childObs, errs string) {
	sched, obs, doneT, tailDone, kids, errs := runCaseX(in, progs, tail, prefix, pick, true)
	done = tailDone
	for _, d := range doneT {
		done = done && d
	}
	return sched, obs, done && errs == "", kids, errs
}

// runCaseX: pick == nil stops after the prefix; everyStep == false probes only at the end (one
// entry in obs).  doneT tells which goroutines have returned.
// The tail (operations issued after all goroutines of progs have returned) is run by goroutine
// number len(progs), started only then and stepped to its end; its steps are part of sched.
func runCaseX(in initSpec, progs [][]cop, tail []cop, prefix []int, pick picker, everyStep bool) (sched []int, obs []cobs, doneT []bool, tailDone bool, kids []childObs, errs string) {
	core, logs := observer.New(zapcore.Level(in.Level))
	zap.ReplaceGlobals(zap.New(core))
	var base context.Context
	if in.Steps {
		base = log.InitLogger(context.TODO())
		for _, f := range in.Fields {
			base = log.WithFields(base, zfield(f))
		}
	} else {
		base = log.InitLogger(context.TODO(), zfields(in.Fields)...)
	}
	if in.Wrap != nil {
		log.SetLevel(base, zapcore.Level(*in.Wrap))
	}
	n := len(progs)
	s := logsched.New(n + 1)
	log.VerifYield = s.Yield
	defer func() { log.VerifYield = nil; s.Abort() }()
	doneT = make([]bool, n)
	flags := func() []bool {
		for t := range doneT {
			doneT[t] = s.Done(t)
		}
		return doneT
	}
	// children: appended by whichever goroutine holds the baton (one at a time), so in the
	// order of the ChildLogger calls
	type kid struct {
		t, idx int
		ctx    context.Context
	}
	var born []kid
	kids = []childObs{}
	opsDone = make([]int, n+1)
	body := func(t int, p []cop) func() {
		cx := context.WithValue(base, otherKey{t}, t) // a distinct context sharing the holder
		return func() {
			for i, o := range p {
				opsDone[t] = i
				switch o.Op {
				case "With":
					log.WithFields(cx, zfields(o.Fields)...)
				case "Child":
					born = append(born, kid{t, i, log.ChildLogger(cx, zfields(o.Fields)...)})
				default:
					log.SetLevel(cx, zapcore.Level(o.Level))
				}
			}
			opsDone[t] = len(p)
		}
	}
	for t := 0; t < n; t++ {
		if err := s.Start(t, body(t, progs[t])); err != nil {
			return sched, obs, flags(), false, kids, err.Error()
		}
	}
	parDone := func() bool {
		for t := 0; t < n; t++ {
			if !s.Done(t) {
				return false
			}
		}
		return true
	}
	for step := 0; step < maxSteps; step++ {
		if step >= len(prefix) && (pick == nil || parDone()) {
			break
		}
		var t int
		if step < len(prefix) {
			t = prefix[step]
		} else {
			t = pick(step, s, n)
		}
		if t < 0 || t >= n {
			t = 0 // the tail goroutine is never scheduled here
		}
		if _, err := s.Step(t); err != nil {
			return sched, obs, flags(), false, kids, err.Error()
		}
		sched = append(sched, t)
		if everyStep {
			obs = append(obs, probe(base, logs))
		}
	}
	// the sequential tail: only once every goroutine of the parallel part has returned
	tailDone = len(tail) == 0
	if len(tail) > 0 && parDone() {
		if err := s.Start(n, body(n, tail)); err != nil {
			return sched, obs, flags(), false, kids, err.Error()
		}
		for k := 0; k < maxSteps && !s.Done(n); k++ {
			if _, err := s.Step(n); err != nil {
				return sched, obs, flags(), false, kids, err.Error()
			}
			sched = append(sched, n)
			if everyStep {
				obs = append(obs, probe(base, logs))
			}
		}
		tailDone = s.Done(n)
	}
	if !everyStep {
		obs = []cobs{probe(base, logs)}
	}
	for _, k := range born {
		kids = append(kids, childObs{k.t, k.idx, probe(k.ctx, logs)})
	}
	return sched, obs, flags(), tailDone, kids, ""
}

func running(s *logsched.Sched, n int) []int {
	var r []int
	for t := 0; t < n; t++ {
		if !s.Done(t) {
			r = append(r, t)
		}
	}
	return r
}

func roundRobin(step int, s *logsched.Sched, n int) int {
	r := running(s, n)
	return r[step%len(r)]
}

// finalOnly (-final): judge only the quiescent state of every case (sc_case terms) — for code
// whose step structure is not the model's.
var finalOnly bool

// ---------- Gallina ----------
func gN(k uint64) string         { return fmt.Sprintf("%d", k) }
func gFields(ks []uint64) string { return gal.ListOf(ks, gN) }
func gCore(g initSpec) string {
	s := "(Base " + gal.Z(int64(g.Level)) + " " + gFields(g.Fields) + ")"
	if g.Wrap != nil {
		s = "(Wrap " + s + " " + gal.Z(int64(*g.Wrap)) + ")"
	}
	return s
}
func gObs(o cobs) string {
	if o.Full == nil {
		return "Reg " + gFields(o.Fields) + " " + gN(o.Mask)
	}
	return "Irr " + gal.ListOf(o.Full, func(l [][]uint64) string { return gal.ListOf(l, gFields) })
}
func gCop(o cop) string {
	switch o.Op {
	case "With":
		return "CWith " + gFields(o.Fields)
	case "Child":
		return "CChild " + gFields(o.Fields)
	}
	return "CSetLevel " + gal.Z(int64(o.Level))
}

func gKids(ks []childObs) string {
	return gal.ListOf(ks, func(k childObs) string {
		return gal.Pair(gal.Pair(gal.Nat(k.T), gal.Nat(k.Idx)), gObs(k.Obs))
	})
}

// schedErr: a goroutine neither yielded nor returned (it blocks on something the instrumenter
// does not know); the run stops generating cases, the plugin reports it.
var schedErr string

func emit(out *gal.Out, kind string, in initSpec, progs [][]cop, tail []cop, prefix []int, pick picker) {
	if in.Fields == nil {
		in.Fields = []uint64{}
	}
	if tail == nil {
		tail = []cop{}
	}
	if finalOnly {
		emitFinal(out, kind, in, progs, tail, prefix, pick)
		return
	}
	sched, obs, done, kids, errs := runCase(in, progs, tail, prefix, pick)
	if errs != "" {
		schedErr = errs
	}
	t := "({| cc_init := " + gCore(in) + "; cc_progs := " +
		gal.ListOf(progs, func(p []cop) string { return gal.ListOf(p, gCop) }) +
		"; cc_tail := " + gal.ListOf(tail, gCop) +
		"; cc_sched := " + gal.ListOf(sched, func(t int) string { return fmt.Sprint(t) }) + "%nat" +
		"; cc_obs := " + gal.ListOf(obs, gObs) + "; cc_done := " + gal.Bool(done) +
		"; cc_children := " + gKids(kids) + " |})%N"
	out.Case(t, ccase{Kind: kind, Init: in, Progs: progs, Tail: tail, Prefix: prefix, Sched: sched, Obs: obs, Done: done, Children: kids, Err: errs})
}

// emitFinal runs prefix + round-robin completion and writes a final-state case (sc_case): only
// the quiescent logger is judged, with the specification predicate final_ok — used when the
// number of yields per call of the code under test differs from the model's programs.
func emitFinal(out *gal.Out, kind string, in initSpec, progs [][]cop, tail []cop, prefix []int, pick picker) {
	if in.Fields == nil {
		in.Fields = []uint64{}
	}
	sched, obs, doneT, tailDone, kids, errs := runCaseX(in, progs, tail, prefix, pick, false)
	if errs != "" {
		schedErr = errs
	}
	done := errs == "" && tailDone
	for _, d := range doneT {
		done = done && d
	}
	writeFinal(out, kind, in, progs, tail, sched, obs[len(obs)-1], kids, done, errs, 0)
}

func writeFinal(out *gal.Out, kind string, in initSpec, progs [][]cop, tail []cop, sched []int, fin cobs, kids []childObs, done bool, errs string, explored int) {
	if kids == nil {
		kids = []childObs{}
	}
	if tail == nil {
		tail = []cop{}
	}
	t := "({| sc_init := " + gCore(in) + "; sc_progs := " +
		gal.ListOf(progs, func(p []cop) string { return gal.ListOf(p, gCop) }) +
		"; sc_tail := " + gal.ListOf(tail, gCop) +
		"; sc_final := " + gObs(fin) + "; sc_children := " + gKids(kids) + " |})%N"
	out.Case(t, fcase{Kind: kind, Judge: "final", Init: in, Progs: progs, Tail: tail, Sched: sched, Final: fin, Children: kids, Done: done, Err: errs, Explored: explored})
}

type fcase struct {
	Kind     string     `json:"kind"`
	Judge    string     `json:"judge"`
	Init     initSpec   `json:"init"`
	Progs    [][]cop    `json:"progs"`
	Tail     []cop      `json:"tail,omitempty"`
	Sched    []int      `json:"sched"`
	Final    cobs       `json:"final"`
	Children []childObs `json:"children"`
	Done     bool       `json:"done"`
	Err      string     `json:"err,omitempty"`
	Explored int        `json:"explored"`
}

// suspicious mirrors final_ok of LogCtxJudge.v (the verdict itself is given by Coq): fields =
// initial ++ a permutation of all added, level = that of a goroutine's last SetLevel.
func suspicious(in initSpec, progs [][]cop, tail []cop, fin cobs, kids []childObs) bool {
	all := append(append([][]cop(nil), progs...), tail)
	for _, k := range kids {
		if suspiciousChild(in, all, k) {
			return true
		}
	}
	if fin.Full != nil {
		return true
	}
	// the tail's fields come last, in its order; its last SetLevel decides the level
	var tf []uint64
	tailLevel, tailSets := 0, false
	for _, o := range tail {
		switch o.Op {
		case "With":
			tf = append(tf, o.Fields...)
		case "SetLevel":
			tailLevel, tailSets = o.Level, true
		}
	}
	if len(fin.Fields) < len(tf) || !same(fin.Fields[len(fin.Fields)-len(tf):], tf) {
		return true
	}
	fin = cobs{Fields: fin.Fields[:len(fin.Fields)-len(tf)], Mask: fin.Mask}
	want := map[uint64]int{}
	nadd := 0
	var lasts []int
	for _, p := range progs {
		last, has := 0, false
		for _, o := range p {
			switch o.Op {
			case "With":
				for _, f := range o.Fields {
					want[f]++
					nadd++
				}
			case "SetLevel":
				last, has = o.Level, true
			}
		}
		if has {
			lasts = append(lasts, last)
		}
	}
	if len(lasts) == 0 {
		l := in.Level
		if in.Wrap != nil {
			l = *in.Wrap
		}
		lasts = []int{l}
	}
	if tailSets {
		lasts = []int{tailLevel}
	}
	if len(fin.Fields) != len(in.Fields)+nadd || !same(fin.Fields[:len(in.Fields)], in.Fields) {
		return true
	}
	for _, f := range fin.Fields[len(in.Fields):] {
		want[f]--
		if want[f] < 0 {
			return true
		}
	}
	// the fields of one goroutine keep the order in which it added them
	for _, p := range progs {
		rest := fin.Fields[len(in.Fields):]
		for _, o := range p {
			if o.Op != "With" {
				continue
			}
			for _, f := range o.Fields {
				k := 0
				for k < len(rest) && rest[k] != f {
					k++
				}
				if k == len(rest) {
					return true
				}
				rest = rest[k+1:]
			}
		}
	}
	for _, l := range lasts {
		var m uint64
		for i := range levels {
			if i-1 >= l {
				m |= 1 << uint(i)
			}
		}
		if m == fin.Mask {
			return false
		}
	}
	return true
}

// suspiciousChild mirrors child_ok of LogCtxJudge.v.
func suspiciousChild(in initSpec, progs [][]cop, k childObs) bool {
	if k.Obs.Full != nil || k.T >= len(progs) || k.Idx >= len(progs[k.T]) || progs[k.T][k.Idx].Op != "Child" {
		return true
	}
	own := progs[k.T][k.Idx].Fields
	fs := k.Obs.Fields
	if len(fs) < len(in.Fields)+len(own) || !same(fs[:len(in.Fields)], in.Fields) || !same(fs[len(fs)-len(own):], own) {
		return true
	}
	mid := map[uint64]int{}
	for _, f := range fs[len(in.Fields) : len(fs)-len(own)] {
		mid[f]++
	}
	added := map[uint64]int{}
	levels := []int{in.Level}
	if in.Wrap != nil {
		levels = []int{*in.Wrap}
	}
	for _, p := range progs {
		for _, o := range p {
			switch o.Op {
			case "With":
				for _, f := range o.Fields {
					added[f]++
				}
			case "SetLevel":
				levels = append(levels, o.Level)
			}
		}
	}
	for f, c := range mid {
		if c > added[f] {
			return true
		}
	}
	earlier := map[uint64]int{}
	for _, o := range progs[k.T][:k.Idx] {
		if o.Op == "With" {
			for _, f := range o.Fields {
				earlier[f]++
			}
		}
	}
	for f, c := range earlier {
		if mid[f] < c {
			return true
		}
	}
	for _, l := range levels {
		var m uint64
		for i := range levelsZ {
			if i-1 >= l {
				m |= 1 << uint(i)
			}
		}
		if m == k.Obs.Mask {
			return false
		}
	}
	return true
}

// search enumerates, on the real (instrumented) code, every schedule of every catalogue program
// pair up to the step budget (depth-first over schedule prefixes, each prefix a fresh run) and
// writes the quiescent states that look like a lost field / lost level, shortest schedule
// first, for Coq to judge with final_ok.  Nothing about the number of yields per call is assumed.
func search(out *gal.Out, budget, keep int, limit time.Duration) {
	deadline := time.Now().Add(limit)
	timedOut := false
	w := func(k uint64) cop { return cop{Op: "With", Fields: []uint64{k}} }
	sl := func(l int) cop { return cop{Op: "SetLevel", Level: l} }
	ch := func(k uint64) cop { return cop{Op: "Child", Fields: []uint64{k}} }
	dbg := -1
	// the second one is not used by anybody before the goroutines start: concurrent first use
	inits := []initSpec{{Level: 0, Fields: []uint64{}}, {Level: 0, Fields: []uint64{8, 9}}, {Level: 1, Fields: []uint64{9}, Wrap: &dbg}}
	// smallest first: the four pairs of single calls (mixed pairs in both orders), then longer ones
	type entry struct {
		progs [][]cop
		tail  []cop
	}
	// smallest first: the pairs of single calls (mixed pairs in both orders); each pair also
	// followed by a sequential tail that repeats the request of one of the two (a call made
	// after both have returned must take effect whatever the overlap left behind); longer ones
	var catalogue []entry
	for _, pr := range [][][]cop{
		{{w(1)}, {w(2)}},
		{{w(1)}, {sl(2)}},
		{{sl(2)}, {w(1)}},
		{{sl(-1)}, {sl(2)}},
		{{w(1)}, {ch(2)}},
	} {
		catalogue = append(catalogue, entry{pr, nil})
	}
	for _, pr := range [][][]cop{
		{{sl(-1)}, {sl(2)}},
		{{sl(1)}, {sl(2)}},
		{{w(1)}, {sl(2)}},
	} {
		for _, p := range pr {
			if p[0].Op == "SetLevel" {
				catalogue = append(catalogue, entry{pr, []cop{p[0]}})
			}
		}
		catalogue = append(catalogue, entry{pr, []cop{w(5)}})
	}
	for _, pr := range [][][]cop{
		{{w(1), ch(3)}, {w(2)}},
		{{w(1), w(3)}, {w(2)}},
		{{w(1)}, {w(2), sl(2)}},
		{{sl(2), w(1)}, {w(2)}},
		{{w(1), sl(1)}, {sl(2), w(2)}},
		{{{Op: "With"}, w(1)}, {w(2)}},
		{{sl(2), ch(3)}, {w(1), ch(4)}},
	} {
		catalogue = append(catalogue, entry{pr, nil})
	}
	type hit struct {
		in    initSpec
		progs [][]cop
		tail  []cop
		sched []int
		fin   cobs
		kids  []childObs
	}
	var hits []hit
	var lastOK *hit
	explored := 0
	for _, en := range catalogue {
		progs, tail := en.progs, en.tail
		for _, in := range inits {
			var dfs func(prefix []int)
			dfs = func(prefix []int) {
				if timedOut || time.Now().After(deadline) {
					timedOut = true
					return
				}
				sched, obs, doneT, tailDone, kids, errs := runCaseX(in, progs, tail, prefix, nil, false)
				if errs != "" {
					schedErr, timedOut = errs, true
					return
				}
				all := true
				for _, d := range doneT {
					all = all && d
				}
				if all && tailDone {
					explored++
					h := hit{in, progs, tail, append([]int(nil), sched...), obs[0], kids}
					if suspicious(in, progs, tail, obs[0], kids) {
						hits = append(hits, h)
					} else {
						lastOK = &h
					}
					return
				}
				if len(prefix) >= budget {
					return
				}
				for t, d := range doneT {
					if !d {
						dfs(append(append([]int(nil), prefix...), t))
					}
				}
			}
			dfs(nil)
		}
		if len(hits) > 0 || timedOut {
			break // the catalogue is ordered smallest first: a failing input of this size is enough
		}
	}
	// shortest schedules, smallest programs first
	for i := 1; i < len(hits); i++ {
		for j := i; j > 0 && len(hits[j].sched) < len(hits[j-1].sched); j-- {
			hits[j], hits[j-1] = hits[j-1], hits[j]
		}
	}
	if len(hits) > keep {
		hits = hits[:keep]
	}
	for _, h := range hits {
		writeFinal(out, "search", h.in, h.progs, h.tail, h.sched, h.fin, h.kids, true, "", explored)
	}
	if len(hits) == 0 && lastOK != nil {
		kind := "search-clean"
		if timedOut {
			kind = "search-timeout"
		}
		writeFinal(out, kind, lastOK.in, lastOK.progs, lastOK.tail, lastOK.sched, lastOK.fin, lastOK.kids, true, schedErr, explored)
	}
}

// ---------- generators ----------
type gen struct {
	r    *rand.Rand
	next uint64
}

func (g *gen) fields() []uint64 {
	n := 1
	switch x := g.r.IntN(100); {
	case x < 10:
		n = 0 // Logger.With() without fields returns the receiver: the CAS stores the same pointer
	case x < 75:
		n = 1
	default:
		n = 2
	}
	out := make([]uint64, n)
	for i := range out {
		out[i] = g.next
		g.next++
	}
	return out
}

func (g *gen) level() int { return g.r.IntN(4) - 1 }

// accumulate (-accumulate): the shared logger starts from 0..8 fields collected one call at a time.
var accumulate bool

// tail: operations issued after the parallel part (a third of the cases): requests that repeat
// one made in the parallel part (the same level again, the same field again) or new ones.
func (g *gen) tail(progs [][]cop) []cop {
	if g.r.IntN(3) != 0 {
		return nil
	}
	var all, sets []cop
	for _, p := range progs {
		for _, o := range p {
			all = append(all, o)
			if o.Op == "SetLevel" {
				sets = append(sets, o)
			}
		}
	}
	var out []cop
	for k := 1 + g.r.IntN(2); k > 0; k-- {
		switch x := g.r.IntN(10); {
		case x < 4 && len(sets) > 0:
			out = append(out, sets[g.r.IntN(len(sets))])
		case x < 6:
			out = append(out, all[g.r.IntN(len(all))])
		case x < 8:
			out = append(out, cop{Op: "SetLevel", Level: g.level()})
		default:
			out = append(out, cop{Op: "With", Fields: g.fields()})
		}
	}
	return out
}

// levelRace: goroutines that each set a different level (and maybe add a field), then the
// level of one of them is requested again.
func (g *gen) levelRace() (initSpec, [][]cop, []cop) {
	g.next = 1
	in := initSpec{Level: g.level(), Fields: []uint64{}}
	n := 2 + g.r.IntN(2)
	perm := g.r.Perm(4)
	progs := make([][]cop, n)
	for t := range progs {
		progs[t] = []cop{{Op: "SetLevel", Level: perm[t] - 1}}
		if g.r.IntN(3) == 0 {
			progs[t] = append(progs[t], cop{Op: "With", Fields: g.fields()})
		}
	}
	return in, progs, []cop{progs[g.r.IntN(n)][0]}
}

func (g *gen) progs() (initSpec, [][]cop) {
	g.next = 1
	in := initSpec{Level: g.level(), Fields: []uint64{}}
	if accumulate {
		// collected one call at a time - or all given to InitLogger, the logger then being used
		// for the first time by the goroutines themselves (concurrent first use)
		in.Steps = g.r.IntN(2) == 0
		for k := g.r.IntN(9); k > 0; k-- {
			in.Fields = append(in.Fields, g.next)
			g.next++
		}
	} else if g.r.IntN(2) == 0 {
		in.Fields = g.fields()
	}
	if g.r.IntN(3) == 0 {
		w := g.level()
		in.Wrap = &w
	}
	n := 2 + g.r.IntN(3)
	progs := make([][]cop, n)
	for t := range progs {
		k := 1 + g.r.IntN(3)
		for i := 0; i < k; i++ {
			switch x := g.r.IntN(12); {
			case x < 3:
				progs[t] = append(progs[t], cop{Op: "SetLevel", Level: g.level()})
			case x < 5:
				progs[t] = append(progs[t], cop{Op: "Child", Fields: g.fields()})
			default:
				progs[t] = append(progs[t], cop{Op: "With", Fields: g.fields()})
			}
		}
	}
	return in, progs
}

// pickers: uniformly random; bursts (bounded preemption); "everybody loads first"
func (g *gen) picker(kind int) picker {
	switch kind {
	case 0:
		return func(step int, s *logsched.Sched, n int) int {
			if g.r.IntN(20) == 0 {
				return g.r.IntN(n) // possibly a goroutine that has returned: a stutter
			}
			r := running(s, n)
			return r[g.r.IntN(len(r))]
		}
	case 1:
		cur, left := -1, 0
		return func(step int, s *logsched.Sched, n int) int {
			if left == 0 || cur < 0 || s.Done(cur) {
				r := running(s, n)
				cur, left = r[g.r.IntN(len(r))], 1+g.r.IntN(4)
			}
			left--
			return cur
		}
	default:
		return func(step int, s *logsched.Sched, n int) int {
			r := running(s, n)
			if step < n {
				return step % n // every goroutine performs its first Load before anyone updates
			}
			return r[g.r.IntN(len(r))]
		}
	}
}

// starvePicker: the victim takes m steps, then the attacker completes one whole call, and so on:
// whatever the victim loaded is stale by the time it tries to install its update - every time.
// A retry loop that gives up after k attempts (falls back to a plain store, returns early, ...)
// is driven into its fallback, with one more attacker call landing inside it.
func starvePicker(victim, attacker, m int) picker {
	left, target := m, -1
	return func(step int, s *logsched.Sched, n int) int {
		if s.Done(victim) || s.Done(attacker) {
			r := running(s, n)
			return r[step%len(r)]
		}
		if left > 0 {
			left--
			return victim
		}
		if target < 0 {
			target = opsDone[attacker] + 1
		}
		if opsDone[attacker] >= target {
			left, target = m-1, -1
			return victim
		}
		return attacker
	}
}

// starve emits the starvation-directed cases: one victim call against an attacker with enough
// calls to make the victim lose k rounds (k up to 16) and to land inside whatever comes after.
func starve(out *gal.Out, limit int) {
	info := initSpec{Level: 0, Fields: []uint64{}}
	count := 0
	for _, k := range []int{11, 2, 16, 5, 1, 3, 8, 12} {
		for _, m := range []int{1, 2} {
			for variant := 0; variant < 4; variant++ {
				if limit > 0 && count >= limit {
					return
				}
				victim := cop{Op: "With", Fields: []uint64{1}}
				if variant%2 == 1 {
					victim = cop{Op: "SetLevel", Level: 2}
				}
				var att []cop
				for i := 0; i < 2*k+4; i++ {
					if variant >= 2 && i%2 == 1 {
						att = append(att, cop{Op: "SetLevel", Level: i%4 - 1})
					} else {
						att = append(att, cop{Op: "With", Fields: []uint64{uint64(10 + i)}})
					}
				}
				emit(out, "starve", info, [][]cop{{victim}, att}, nil, nil, starvePicker(0, 1, m))
				count++
			}
		}
	}
}

func corpus(out *gal.Out) {
	w1 := func(k uint64) cop { return cop{Op: "With", Fields: []uint64{k}} }
	info := initSpec{Level: 0, Fields: []uint64{}}
	// the Coq witnesses of C18_conc_orig_refuted / C18_conc_orig_level_refuted
	emit(out, "corpus", info, [][]cop{{w1(1)}, {w1(2)}}, nil, []int{0, 1, 0, 1}, roundRobin)
	emit(out, "corpus", info, [][]cop{{w1(1)}, {{Op: "SetLevel", Level: -1}}}, nil, []int{0, 1, 1, 0}, roundRobin)
	// With() without fields stores the loaded pointer itself: the other CAS still succeeds
	emit(out, "corpus", info, [][]cop{{{Op: "With"}}, {w1(1)}}, nil, []int{0, 1, 0, 1}, roundRobin)
	// ChildLogger between another goroutine's Load and CompareAndSwap, and after its own update
	emit(out, "corpus", info, [][]cop{{w1(1), {Op: "Child", Fields: []uint64{3}}}, {w1(2), {Op: "Child"}}}, nil,
		[]int{0, 1, 0, 0, 1, 1, 1}, roundRobin)
	emit(out, "corpus", info, [][]cop{{{Op: "SetLevel", Level: 2}, {Op: "Child", Fields: []uint64{3}}}, {{Op: "Child", Fields: []uint64{4}}, w1(1)}}, nil,
		[]int{0, 1, 1, 0, 1, 0}, roundRobin)
	dbg := -1
	emit(out, "corpus", initSpec{Level: 1, Fields: []uint64{9}, Wrap: &dbg},
		[][]cop{{w1(1), {Op: "SetLevel", Level: 2}}, {w1(2)}, {{Op: "With"}, w1(3)}}, nil,
		[]int{0, 1, 2, 1, 0, 2, 0, 0, 2, 2}, roundRobin)
	// overlapping SetLevel calls (the first to load retries and ends on top), then the loser's
	// level is requested again after both have returned; and a field added afterwards
	sl := func(l int) cop { return cop{Op: "SetLevel", Level: l} }
	emit(out, "corpus", info, [][]cop{{sl(1)}, {sl(2)}}, []cop{sl(2)}, []int{0, 1, 1, 0, 0, 0}, roundRobin)
	emit(out, "corpus", info, [][]cop{{sl(-1)}, {sl(2), w1(1)}}, []cop{sl(-1), w1(2)}, []int{1, 0, 0, 1}, roundRobin)
}

func main() {
	seed := flag.Uint64("seed", 1, "seed")
	outp := flag.String("out", "c18conc", "output prefix")
	mode := flag.String("mode", "random", "corpus|random|replay|search")
	n := flag.Int("n", 100, "number of cases")
	in := flag.String("in", "", "replay: file with one {init, progs, prefix} JSON object per line")
	final := flag.Bool("final", false, "replay: judge only the quiescent final state (sc_case terms)")
	budget := flag.Int("budget", 12, "search: maximal schedule length")
	limit := flag.Int("limit", 60, "search: time limit in seconds")
	acc := flag.Bool("accumulate", false, "random: initial fields collected one WithFields call at a time")
	flag.Parse()
	accumulate = *acc
	finalOnly = *final
	out := gal.NewOut(*outp)
	defer out.Close()
	g := &gen{r: gal.NewRand(*seed), next: 1}
	switch *mode {
	case "corpus":
		corpus(out)
	case "replay":
		f, err := os.Open(*in)
		if err != nil {
			panic(err)
		}
		defer f.Close()
		sc := bufio.NewScanner(f)
		sc.Buffer(make([]byte, 1<<20), 1<<26)
		for sc.Scan() {
			var c ccase
			if err := json.Unmarshal(sc.Bytes(), &c); err != nil {
				panic(err)
			}
			pre := c.Prefix
			if pre == nil {
				pre = c.Sched
			}
			// the tail goroutine's steps are not part of the prefix: it runs by itself at the end
			par := make([]int, 0, len(pre))
			for _, t := range pre {
				if t < len(c.Progs) {
					par = append(par, t)
				}
			}
			pre = par
			kind := c.Kind
			if kind == "" {
				kind = "replay"
			}
			emit(out, kind, c.Init, c.Progs, c.Tail, pre, roundRobin)
		}
	case "search":
		search(out, *budget, 12, time.Duration(*limit)*time.Second)
	case "starve":
		starve(out, *n)
	default:
		for i := 0; i < *n && schedErr == ""; i++ {
			in, progs := g.progs()
			if i%5 == 4 {
				in, progs, tail := g.levelRace()
				emit(out, "random", in, progs, tail, nil, g.picker(i%3))
				continue
			}
			emit(out, "random", in, progs, g.tail(progs), nil, g.picker(i%3))
		}
	}
}
