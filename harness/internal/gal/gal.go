// Package gal holds helpers shared by the verification harnesses: the seeded PRNG, Gallina
// literal printers and the case/JSON writers.  Every random choice of a harness comes from
// the one PCG created by NewRand(seed).
package gal

import (
	"bufio"
	"encoding/json"
	"fmt"
	"math/rand/v2"
	"os"
	"strconv"
	"strings"
)

// NewRand returns the single PRNG of a harness run.
func NewRand(seed uint64) *rand.Rand {
	return rand.New(rand.NewPCG(seed, 0x9e3779b97f4a7c15))
}

// N renders a natural number literal of scope N.
func N(v uint64) string { return strconv.FormatUint(v, 10) + "%N" }

// Nat renders a nat literal (small numbers only).
func Nat(v int) string { return strconv.Itoa(v) + "%nat" }

// Z renders an integer literal of scope Z.
func Z(v int64) string { return "(" + strconv.FormatInt(v, 10) + ")%Z" }

// Bool renders a bool.
func Bool(b bool) string {
	if b {
		return "true"
	}
	return "false"
}

// Str renders a Coq string literal (bytes; a double quote is doubled).
func Str(s string) string { return "\"" + strings.ReplaceAll(s, "\"", "\"\"") + "\"%string" }

// List renders a Gallina list.
func List(items []string) string { return "[" + strings.Join(items, "; ") + "]" }

// ListOf maps and renders.
func ListOf[T any](xs []T, f func(T) string) string {
	out := make([]string, len(xs))
	for i, x := range xs {
		out[i] = f(x)
	}
	return List(out)
}

// Pair renders a pair.
func Pair(a, b string) string { return "(" + a + ", " + b + ")" }

// Opt renders an option.
func Opt(present bool, v string) string {
	if present {
		return "(Some " + v + ")"
	}
	return "None"
}

// Out writes, index-aligned, one Gallina term per line (cases file) and one JSON object per
// line (the same case for humans, replay files and evidence samples).
type Out struct {
	g, j   *bufio.Writer
	gf, jf *os.File
	N      int
}

// NewOut opens <prefix>.cases and <prefix>.jsonl.
func NewOut(prefix string) *Out {
	gf, err := os.Create(prefix + ".cases")
	if err != nil {
		panic(err)
	}
	jf, err := os.Create(prefix + ".jsonl")
	if err != nil {
		panic(err)
	}
	return &Out{g: bufio.NewWriterSize(gf, 1<<20), j: bufio.NewWriterSize(jf, 1<<20), gf: gf, jf: jf}
}

// Case appends one case.
func (o *Out) Case(gallina string, js any) {
	if strings.ContainsAny(gallina, "\n") {
		gallina = strings.ReplaceAll(gallina, "\n", " ")
	}
	fmt.Fprintln(o.g, gallina)
	b, err := json.Marshal(js)
	if err != nil {
		panic(err)
	}
	o.j.Write(b)
	o.j.WriteByte('\n')
	o.N++
}

// Close flushes both files.
func (o *Out) Close() {
	o.g.Flush()
	o.j.Flush()
	o.gf.Close()
	o.jf.Close()
}
