// Package logvocab is the field vocabulary of the C18 harnesses: field number k (k >= 1) is one
// fixed zap field whose NAME runs through ordinary names, the names an encoder uses itself
// (level, ts, msg, caller, logger, stacktrace ...), the empty name, case / white-space / non-ASCII
// variants, and whose KIND runs through the zap field kinds; the value identifies k.  Names repeat
// (duplicate keys with different values), and a generator may pass the very same k twice.
package logvocab

import (
	"errors"
	"fmt"
	"sync"
	"time"

	"go.uber.org/zap"
	"go.uber.org/zap/zapcore"
)

var names = []string{"f0", "f1", "f2", "f3", "f4", "f5", "f6",
	"level", "ts", "msg", "caller", "logger", "stacktrace", "error", "ctx_err", "time", "message", "name",
	"", "F0", "f 0", "ключ", "a.b", "f0\n"}

type keyed struct{ K uint64 }

type str uint64

func (s str) String() string { return fmt.Sprintf("stringer%d", uint64(s)) }

const nkinds = 14

func build(k uint64) zap.Field {
	name := names[k%uint64(len(names))]
	switch (k / 3) % nkinds {
	case 0, 1, 2: // the kind the first version of the harness used, still the most frequent
		return zap.Int64(name, int64(k))
	case 3:
		return zap.String(name, fmt.Sprintf("s%d", k))
	case 4:
		return zap.Float64(name, float64(k)+0.25)
	case 5:
		return zap.Duration(name, time.Duration(k))
	case 6:
		return zap.Time(name, time.Unix(int64(k), 0).UTC())
	case 7:
		return zap.NamedError(name, errors.New(fmt.Sprintf("e%d", k)))
	case 8:
		return zap.Uint32(name, uint32(k))
	case 9:
		return zap.Binary(name, []byte(fmt.Sprintf("b%d", k)))
	case 10:
		return zap.Any(name, keyed{k})
	case 11:
		return zap.Stringer(name, str(k))
	case 12:
		return zap.Bool(name, k%2 == 0)
	default:
		return zap.Strings(name, []string{fmt.Sprintf("a%d", k)})
	}
}

var (
	mu    sync.Mutex
	cache []zap.Field // cache[k-1] = build(k)
	canon []uint64
)

func fill(k uint64) {
	for uint64(len(cache)) < k {
		n := uint64(len(cache)) + 1
		f := build(n)
		c := n
		for j, g := range cache {
			if g.Equals(f) {
				c = uint64(j) + 1
				break
			}
		}
		cache, canon = append(cache, f), append(canon, c)
	}
}

// Field returns field number k.
func Field(k uint64) zap.Field {
	mu.Lock()
	defer mu.Unlock()
	if k == 0 || k > 1<<16 {
		return zap.Int64("f0", int64(k))
	}
	fill(k)
	return cache[k-1]
}

// Canon returns the smallest number whose field equals field k (two numbers can denote equal
// fields only for kinds whose value cannot carry k, such as booleans).
func Canon(k uint64) uint64 {
	mu.Lock()
	defer mu.Unlock()
	if k == 0 || k > 1<<16 {
		return k
	}
	fill(k)
	return canon[k-1]
}

// ID maps a captured field back to its number; a field that is not one of the vocabulary (a
// field the package made up, a Skip field, a poisoned slot of a reused slice) gets 1<<40.
func ID(f zapcore.Field) uint64 {
	mu.Lock()
	defer mu.Unlock()
	fill(512)
	for j, g := range cache {
		if g.Equals(f) {
			return uint64(j) + 1
		}
	}
	return 1 << 40
}

// Poison is what the harness writes into its scratch slice after a call returned.
func Poison() zap.Field { return zap.String("poison", "slice reused by the caller after the call") }
