// Package logsched is a baton-passing scheduler for replaying a prescribed interleaving on
// real goroutines: exactly one goroutine runs between two yields, chosen by the controller.
// The instrumented code calls Yield before every atomic operation on the shared holder, so a
// Step lets one goroutine perform exactly one such operation (and the thread-local code up to
// the next yield or its end).
package logsched

import (
	"fmt"
	"runtime"
	"time"
)

// Sched controls n goroutines.
type Sched struct {
	wake   []chan struct{}
	parked chan int
	done   []bool
	cur    int
	abort  chan struct{}
	Steps  int
}

// New creates a scheduler for n goroutines.
func New(n int) *Sched {
	s := &Sched{wake: make([]chan struct{}, n), parked: make(chan int), done: make([]bool, n), cur: -1, abort: make(chan struct{})}
	for i := range s.wake {
		s.wake[i] = make(chan struct{})
	}
	return s
}

const budget = 3 * time.Second

func (s *Sched) wait() error {
	select {
	case <-s.parked:
		return nil
	case <-time.After(budget):
		return fmt.Errorf("logsched: goroutine %d neither yielded nor returned within %v", s.cur, budget)
	}
}

// Start launches goroutine tid and returns once it is parked at its first yield (or has
// returned without ever yielding).
func (s *Sched) Start(tid int, body func()) error {
	s.cur = tid
	go func() {
		body()
		s.done[tid] = true
		s.parked <- tid
	}()
	return s.wait()
}

// Yield is the hook called by the running goroutine before an atomic operation.
func (s *Sched) Yield() {
	tid := s.cur
	s.parked <- tid
	select {
	case <-s.wake[tid]:
	case <-s.abort:
		runtime.Goexit() // the run was abandoned: do not leak the parked goroutine
	}
}

// Abort ends the goroutines that are still parked (used when a run is cut short).
func (s *Sched) Abort() { close(s.abort) }

// Step lets goroutine tid perform its next atomic operation.  It reports false (a stutter)
// when the goroutine has already returned.
func (s *Sched) Step(tid int) (bool, error) {
	if tid < 0 || tid >= len(s.done) || s.done[tid] {
		return false, nil
	}
	s.cur = tid
	s.Steps++
	s.wake[tid] <- struct{}{}
	return true, s.wait()
}

// Done reports whether goroutine tid has returned.
func (s *Sched) Done(tid int) bool { return s.done[tid] }

// AllDone reports whether every goroutine has returned.
func (s *Sched) AllDone() bool {
	for _, d := range s.done {
		if !d {
			return false
		}
	}
	return true
}
