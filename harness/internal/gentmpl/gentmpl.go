// Package gentmpl finds, in a generator package (gsort/gen, genum/gen, gerror/gen), the template
// the generator really executes: the package-level variable initialised with
// template.Must(template.New(..).Parse(<raw>)), the file the //go:embed directive of <raw> names —
// over the package's whole file set (harness/internal/srcset: every non-test file that matches
// the build context) — and refuses when anything else in the package can change that template:
// an assignment to / address of either variable in any function (init included), a second
// candidate, a call of Funcs / Parse / ParseFiles / ParseGlob / New / AddParseTree / Delims /
// Option / Lookup on the template variable, or a FuncMap handed to it.  The template translators
// (xlate_gsort_tmpl, xlate_tmpl_methods) read the file this returns instead of a fixed path.
package gentmpl

import (
	"fmt"
	"go/ast"
	"go/token"
	"path/filepath"
	"strings"

	"gtverif/internal/srcset"
)

// Found describes the template of a generator package.
type Found struct {
	TmplVar, RawVar, File string // File: absolute path of the embedded template
}

func embedOf(gd *ast.GenDecl, vs *ast.ValueSpec) string {
	for _, cg := range []*ast.CommentGroup{vs.Doc, gd.Doc} {
		if cg == nil {
			continue
		}
		for _, c := range cg.List {
			if strings.HasPrefix(c.Text, "//go:embed ") {
				return strings.TrimSpace(strings.TrimPrefix(c.Text, "//go:embed "))
			}
		}
	}
	return ""
}

// parseOfRaw: template.Must(template.New(<any>).Parse(<ident>)) -> ident name
func parseOfRaw(e ast.Expr) string {
	must, ok := e.(*ast.CallExpr)
	if !ok || len(must.Args) != 1 {
		return ""
	}
	if s, ok := must.Fun.(*ast.SelectorExpr); !ok || s.Sel.Name != "Must" {
		return ""
	}
	parse, ok := must.Args[0].(*ast.CallExpr)
	if !ok || len(parse.Args) != 1 {
		return ""
	}
	ps, ok := parse.Fun.(*ast.SelectorExpr)
	if !ok || ps.Sel.Name != "Parse" {
		return ""
	}
	nw, ok := ps.X.(*ast.CallExpr)
	if !ok {
		return ""
	}
	if ns, ok := nw.Fun.(*ast.SelectorExpr); !ok || ns.Sel.Name != "New" {
		return ""
	} else if id, ok := ns.X.(*ast.Ident); !ok || id.Name != "template" {
		return ""
	}
	if id, ok := parse.Args[0].(*ast.Ident); ok {
		return id.Name
	}
	return ""
}

// Find locates the template of the generator package in dir.
func Find(dir string) (*Found, error) {
	p, err := srcset.Load(dir)
	if err != nil {
		return nil, err
	}
	embeds := map[string]string{} // raw var -> file
	var cands []Found
	for _, f := range p.Files {
		for _, d := range f.Decls {
			gd, ok := d.(*ast.GenDecl)
			if !ok || gd.Tok != token.VAR {
				continue
			}
			for _, sp := range gd.Specs {
				vs := sp.(*ast.ValueSpec)
				if file := embedOf(gd, vs); file != "" && len(vs.Names) == 1 {
					if _, dup := embeds[vs.Names[0].Name]; dup {
						return nil, fmt.Errorf("unsupported: %s declared with two go:embed directives", vs.Names[0].Name)
					}
					embeds[vs.Names[0].Name] = file
				}
				for i, n := range vs.Names {
					if i < len(vs.Values) {
						if raw := parseOfRaw(vs.Values[i]); raw != "" {
							cands = append(cands, Found{TmplVar: n.Name, RawVar: raw})
						}
					}
				}
			}
		}
	}
	if len(cands) != 1 {
		return nil, fmt.Errorf("unsupported: %d package-level variables of %s are initialised with template.Must(template.New(..).Parse(<var>)) (want exactly 1)", len(cands), dir)
	}
	fd := cands[0]
	file, ok := embeds[fd.RawVar]
	if !ok {
		return nil, fmt.Errorf("unsupported: %s (parsed into %s) has no //go:embed directive in the package's file set", fd.RawVar, fd.TmplVar)
	}
	if strings.ContainsAny(file, "*? ") {
		return nil, fmt.Errorf("unsupported: go:embed pattern %q of %s", file, fd.RawVar)
	}
	fd.File = filepath.Join(dir, file)
	for _, v := range []string{fd.RawVar, fd.TmplVar} {
		if w := p.WritesTo(v); len(w) > 0 {
			return nil, fmt.Errorf("unsupported: package variable %s is written to / has its address taken in %s", v, strings.Join(w, ", "))
		}
	}
	// nothing else may reconfigure the template
	bad := ""
	for i, f := range p.Files {
		ast.Inspect(f, func(n ast.Node) bool {
			sel, ok := n.(*ast.SelectorExpr)
			if !ok {
				return true
			}
			if id, ok := sel.X.(*ast.Ident); ok && id.Name == fd.TmplVar && id.Obj == nil || ok && id.Name == fd.TmplVar {
				switch sel.Sel.Name {
				case "Funcs", "Parse", "ParseFiles", "ParseGlob", "ParseFS", "New", "AddParseTree", "Delims", "Option", "Lookup", "Clone":
					bad = fmt.Sprintf("%s.%s in %s", fd.TmplVar, sel.Sel.Name, p.Names[i])
				}
			}
			if id, ok := sel.X.(*ast.Ident); ok && id.Name == "template" && sel.Sel.Name == "FuncMap" {
				bad = "a template.FuncMap in " + p.Names[i]
			}
			return true
		})
	}
	if bad != "" {
		return nil, fmt.Errorf("unsupported: the template can be reconfigured: %s", bad)
	}
	return &fd, nil
}
