// Package srcset loads the Go files of one package directory the way the compiler selects them:
// every non-test .go file whose build constraints (file name suffixes, //go:build lines, Go
// version tags) match the build context of the harness build.  Translators use it instead of
// parsing one file by name, so that code delivered in a sibling file, behind a build constraint,
// or in an init() of another file cannot leave a tie proved about dead code.
package srcset

import (
	"fmt"
	"go/ast"
	"go/build"
	"go/parser"
	"go/token"
	"os"
	"path/filepath"
	"sort"
	"strings"
)

// Pkg is the set of files of one directory that take part in the build.
type Pkg struct {
	Fset     *token.FileSet
	Dir      string
	Names    []string    // file names (base), sorted
	Files    []*ast.File // parsed, with comments, index-aligned with Names
	Excluded []string    // non-test .go files of the directory that the build context rejects
}

// Load parses the files of dir that match the build context (default context plus the given tags;
// the harness builds with the tag "verif").
func Load(dir string, tags ...string) (*Pkg, error) {
	ctxt := build.Default
	ctxt.BuildTags = append(append([]string{}, ctxt.BuildTags...), tags...)
	ents, err := os.ReadDir(dir)
	if err != nil {
		return nil, err
	}
	p := &Pkg{Fset: token.NewFileSet(), Dir: dir}
	var names []string
	for _, e := range ents {
		n := e.Name()
		if e.IsDir() || !strings.HasSuffix(n, ".go") || strings.HasSuffix(n, "_test.go") {
			continue
		}
		ok, err := ctxt.MatchFile(dir, n)
		if err != nil {
			return nil, fmt.Errorf("%s: %v", n, err)
		}
		if !ok {
			p.Excluded = append(p.Excluded, n)
			continue
		}
		names = append(names, n)
	}
	sort.Strings(names)
	for _, n := range names {
		f, err := parser.ParseFile(p.Fset, filepath.Join(dir, n), nil, parser.ParseComments)
		if err != nil {
			return nil, err
		}
		p.Names = append(p.Names, n)
		p.Files = append(p.Files, f)
	}
	if len(p.Files) == 0 {
		return nil, fmt.Errorf("no buildable Go files in %s", dir)
	}
	return p, nil
}

func recvName(fd *ast.FuncDecl) string {
	if fd.Recv == nil || len(fd.Recv.List) == 0 {
		return ""
	}
	t := fd.Recv.List[0].Type
	for {
		switch x := t.(type) {
		case *ast.StarExpr:
			t = x.X
		case *ast.IndexExpr:
			t = x.X
		case *ast.IndexListExpr:
			t = x.X
		case *ast.ParenExpr:
			t = x.X
		case *ast.Ident:
			return x.Name
		default:
			return "?"
		}
	}
}

// FuncDecls returns every declaration of the function (recv == "") or method (recv = receiver
// type name without '*' and type parameters) called name in the package.
func (p *Pkg) FuncDecls(recv, name string) []*ast.FuncDecl {
	var out []*ast.FuncDecl
	for _, f := range p.Files {
		for _, d := range f.Decls {
			if fd, ok := d.(*ast.FuncDecl); ok && fd.Name.Name == name && recvName(fd) == recv {
				out = append(out, fd)
			}
		}
	}
	return out
}

// FuncDecl returns the one declaration of recv.name; it is an error if there is none or several.
func (p *Pkg) FuncDecl(recv, name string) (*ast.FuncDecl, error) {
	ds := p.FuncDecls(recv, name)
	q := name
	if recv != "" {
		q = recv + "." + name
	}
	switch len(ds) {
	case 1:
		return ds[0], nil
	case 0:
		return nil, fmt.Errorf("%s: not declared in the files of %s that take part in the build (%s; excluded by build constraints: %s)",
			q, p.Dir, strings.Join(p.Names, " "), strings.Join(p.Excluded, " "))
	}
	return nil, fmt.Errorf("%s: declared %d times in %s", q, len(ds), p.Dir)
}

// FileOf returns the base name of the file that holds the node.
func (p *Pkg) FileOf(n ast.Node) string {
	return filepath.Base(p.Fset.Position(n.Pos()).Filename)
}

// MethodsOf lists the names of all methods declared on the named type (value or pointer receiver), sorted.
func (p *Pkg) MethodsOf(typeName string) []string {
	var out []string
	for _, f := range p.Files {
		for _, d := range f.Decls {
			if fd, ok := d.(*ast.FuncDecl); ok && fd.Recv != nil && recvName(fd) == typeName {
				out = append(out, fd.Name.Name)
			}
		}
	}
	sort.Strings(out)
	return out
}

// TypeSpec returns the declaration of the named type, or an error if it is declared zero or several times.
func (p *Pkg) TypeSpec(name string) (*ast.TypeSpec, error) {
	var out []*ast.TypeSpec
	for _, f := range p.Files {
		for _, d := range f.Decls {
			if gd, ok := d.(*ast.GenDecl); ok && gd.Tok == token.TYPE {
				for _, s := range gd.Specs {
					if ts := s.(*ast.TypeSpec); ts.Name.Name == name {
						out = append(out, ts)
					}
				}
			}
		}
	}
	if len(out) != 1 {
		return nil, fmt.Errorf("type %s: declared %d times in %s", name, len(out), p.Dir)
	}
	return out[0], nil
}

// Inits returns every init function of the package.
func (p *Pkg) Inits() []*ast.FuncDecl { return p.FuncDecls("", "init") }

// WritesTo lists "file:func" for every function body (init included) and every package-level
// initialiser other than the variable's own declaration in which the package-level variable
// varName is assigned to, incremented, has its address taken, is passed to append/copy/clear/delete
// as first argument, or is indexed/field-selected on the left of an assignment.  Shadowing by a
// local of the same name is not analysed: a report may be spurious, never missing for these forms.
func (p *Pkg) WritesTo(varName string) []string {
	var out []string
	isVar := func(e ast.Expr) bool {
		for {
			switch x := e.(type) {
			case *ast.Ident:
				return x.Name == varName
			case *ast.IndexExpr:
				e = x.X
			case *ast.SelectorExpr:
				e = x.X
			case *ast.StarExpr:
				e = x.X
			case *ast.ParenExpr:
				e = x.X
			default:
				return false
			}
		}
	}
	for i, f := range p.Files {
		for _, d := range f.Decls {
			fd, ok := d.(*ast.FuncDecl)
			if !ok || fd.Body == nil {
				continue
			}
			hit := false
			ast.Inspect(fd.Body, func(n ast.Node) bool {
				switch x := n.(type) {
				case *ast.AssignStmt:
					if x.Tok != token.DEFINE {
						for _, l := range x.Lhs {
							if isVar(l) {
								hit = true
							}
						}
					}
				case *ast.IncDecStmt:
					if isVar(x.X) {
						hit = true
					}
				case *ast.UnaryExpr:
					if x.Op == token.AND && isVar(x.X) {
						hit = true
					}
				case *ast.CallExpr:
					if id, ok := x.Fun.(*ast.Ident); ok && len(x.Args) > 0 {
						switch id.Name {
						case "clear", "delete", "copy":
							if isVar(x.Args[0]) {
								hit = true
							}
						}
					}
				}
				return true
			})
			if hit {
				name := fd.Name.Name
				if r := recvName(fd); r != "" {
					name = r + "." + name
				}
				out = append(out, p.Names[i]+":"+name)
			}
		}
	}
	sort.Strings(out)
	return out
}
