// Package vsched is a deterministic baton-passing scheduler for real goroutines running
// instrumented code.  The instrumented code calls a yield hook (Sched.Yield) before every
// shared-memory operation; a worker goroutine additionally yields before every call of its
// client program.  Exactly one goroutine runs between two yields, and which one is decided
// by the caller of Step: the real functions, real atomics and real channels execute, only the
// interleaving is prescribed.
//
// Threads are numbered 0..n-1.  Step(t) lets thread t run from the yield it is parked at to
// its next yield (or to the end of its program) and reports where it parked and which events
// (call / return) it produced on the way.  While no worker holds the baton (the controlling
// goroutine itself runs, e.g. to observe the shared state through the instrumented API) Yield
// is a no-op, apart from honouring the probe abort flag used by watchdogs.
package vsched

import (
	"sync"
	"sync/atomic"
)

// Event is a call or return of one client call, recorded by the worker that made it.
type Event struct {
	Tid   int
	Ret   bool // false = call event, true = return event
	Index int  // index of the call in the thread's program
	Val   any  // return value (return events)
	Panic bool // the call panicked (return events); the thread is finished
}

// StepResult describes what one scheduling of a thread did.
type StepResult struct {
	Site     int // site the thread is parked at now; 0 = between calls or finished
	Finished bool
	Stutter  bool // the thread had already finished: nothing ran
	Events   []Event
}

type abortT struct{}

// Sched controls a set of worker goroutines.
type Sched struct {
	cur      int // thread holding the baton, -1 = the controller
	resume   []chan struct{}
	parked   chan StepResult
	finished []bool
	started  []bool
	events   []Event
	abort    bool
	wg       sync.WaitGroup
	// ProbeAbort makes Yield panic when called outside any worker (watchdog for probes that
	// spin inside instrumented code on the controller side or on a helper goroutine).
	ProbeAbort atomic.Bool
	// ProbeYields counts the yields made while no worker holds the baton (by a probe running on
	// the controller's side): a probe that has made many of them without finishing is spinning.
	ProbeYields atomic.Int64
}

// Call is one client call: it runs the real operation and returns its result.
type Call func() any

// New creates a scheduler for the given client programs; worker goroutines are started
// parked before their first call.
func New(progs [][]Call) *Sched {
	s := &Sched{cur: -1, parked: make(chan StepResult)}
	n := len(progs)
	s.resume = make([]chan struct{}, n)
	s.finished = make([]bool, n)
	s.started = make([]bool, n)
	for t := range progs {
		s.resume[t] = make(chan struct{})
		if len(progs[t]) == 0 {
			// a thread without calls is finished from the start: scheduling it stutters
			s.finished[t] = true
			continue
		}
		s.wg.Add(1)
		go s.worker(t, progs[t])
	}
	return s
}

func (s *Sched) worker(t int, prog []Call) {
	defer s.wg.Done()
	defer func() {
		if r := recover(); r != nil {
			if _, ok := r.(abortT); ok {
				return
			}
			panic(r)
		}
	}()
	<-s.resume[t]
	if s.abort {
		return
	}
	for i, c := range prog {
		if i > 0 {
			s.Yield(0)
		}
		s.events = append(s.events, Event{Tid: t, Index: i})
		v, panicked := s.runCall(c)
		s.events = append(s.events, Event{Tid: t, Ret: true, Index: i, Val: v, Panic: panicked})
		if panicked {
			break
		}
	}
	ev := s.events
	s.events = nil
	s.parked <- StepResult{Site: 0, Finished: true, Events: ev}
}

func (s *Sched) runCall(c Call) (v any, panicked bool) {
	defer func() {
		if r := recover(); r != nil {
			if _, ok := r.(abortT); ok {
				panic(r)
			}
			v, panicked = r, true
		}
	}()
	return c(), false
}

// Yield is the hook the instrumented code calls before every shared-memory operation.
func (s *Sched) Yield(site int) {
	t := s.cur
	if t < 0 {
		s.ProbeYields.Add(1)
		if s.ProbeAbort.Load() {
			panic(abortT{})
		}
		return
	}
	ev := s.events
	s.events = nil
	s.parked <- StepResult{Site: site, Events: ev}
	<-s.resume[t]
	if s.abort {
		panic(abortT{})
	}
}

// Threads returns the number of threads.
func (s *Sched) Threads() int { return len(s.resume) }

// Finished reports whether thread t has run its whole program.
func (s *Sched) Finished(t int) bool { return t < 0 || t >= len(s.finished) || s.finished[t] }

// Step schedules thread t once.
func (s *Sched) Step(t int) StepResult {
	if s.Finished(t) {
		return StepResult{Finished: true, Stutter: true}
	}
	s.cur = t
	s.resume[t] <- struct{}{}
	r := <-s.parked
	s.cur = -1
	if r.Finished {
		s.finished[t] = true
	}
	return r
}

// Close unwinds every worker that is still parked and waits for all of them to exit.
func (s *Sched) Close() {
	s.abort = true
	for t := range s.resume {
		if !s.finished[t] {
			s.finished[t] = true
			s.resume[t] <- struct{}{}
		}
	}
	s.wg.Wait()
	s.cur = -1
}

// IsAbort reports whether a recovered value is the scheduler's unwinding panic.
func IsAbort(r any) bool {
	_, ok := r.(abortT)
	return ok
}
