// Package setxl is the Go -> Gallina translator shared by the translator ties of the set group
// (xlate_bitset: BitSet of package set for C11; xlate_set: Set of package set for C07 and C17).
//
// It reads the WHOLE PACKAGE the way the compiler selects its files (harness/internal/srcset: every
// non-test .go file of the directory that matches the build context of the harness build — tag
// verif, Go version tags), so code delivered in a sibling file or behind a build constraint is what
// gets translated and files the build rejects are never read.  The tie fails (`unsupported:
// package: …`) when a function is declared in two matching files, when an init() refers to the tied
// type or setVal, when setVal is written anywhere, and when Set declares a method the libraries call
// implicitly (MarshalText, UnmarshalText, IsZero, String, GoString, Format, Error).  It regenerates,
// for the requested root functions/methods of the tied type and every function of the package they
// (transitively) call, a Gallina definition.  The tie files
// (coq/ties/Tie_C07.v, Tie_C11.v, Tie_C17.v) then prove `forall args, gen_F args = model_F args`
// against the regenerated file, by tactics that do not depend on the syntactic shape of the
// regenerated term (coq/theories/Base/SetLoopTie.v).
//
// Supported Go subset (anything else is rendered as the identifier UNSUPPORTED_<what>, which
// makes the generated file fail to compile and thereby breaks the tie):
//
//   - functions, methods with value or pointer receiver; a receiver that the body mutates
//     (`*s = e`, `s[k] = v`, `delete(s, k)`, a call of a mutating method on it) is threaded in and
//     out: the function returns (receiver', result) resp. receiver' when it has no result;
//   - calls of other functions/methods of the file (translated as calls of their definitions;
//     callees are emitted first; recursion is not supported); a mutating method may be called as
//     a statement, `_ = s.M(..)`, `x := s.M(..)` or `return s.M(..)`... on a variable;
//   - `x := e`, `var x T [= e]`, `x = e`, `x op= e` (|= &= &^=), `i++`, `*s = e`;
//   - map primitives `m[k] = setVal`, `delete(m, k)`, `_, ok := m[k]` / `_, ok = m[k]`, `len(m)`,
//     `m == nil`, `make(Set[T], n)`; a map copied into another variable (`t := *s`) is an ALIAS of
//     the same map (Go map values are references): both names denote one Gallina variable, and
//     re-assigning either variable afterwards is unsupported;
//   - slices built locally: `make([]T, n)`, `make([]T, 0, n)`, `[]T{}`, `var v []T`, `r[i] = x`,
//     `append(r, x)`, `len(r)`, `return nil`; they are `option (list T)` with None = nil;
//   - `if [init;] c { } [else if … ] [else { }]` (any mix of falling through, return, continue,
//     break), tagless `switch { case c: … default: … }` without break/fallthrough;
//   - `for _, v := range xs`, `for k := range m` (a map: the key order is the map's key list — an
//     explicit iteration order), `for i := range xs` and `for i := 0; i < len(xs); i++` where i is
//     used only as `xs[i]` and neither i nor xs is assigned in the body; `continue`, `break`,
//     `return` inside loops (nested loops too);
//   - operators | & &^ ^(as and-not) == != < <= > >= + || && !, the WIDENING conversions
//     BitSet[T](x) and uint64(x) (identity on N; T(x), uint8(x), … may narrow and are unsupported),
//     integer literals, true/false, nil;
//   - (set.go codecs) the library calls json.Marshal(x) in a return, json.Unmarshal(d, &v) and
//     node.Decode(&v): Section variables of the generated file.
//
// Local variables are alpha-normalised by construction (Gallina binders); untyped named integer
// and boolean constants of the file are resolved to their values.
package setxl

import (
	"fmt"
	"go/ast"
	"go/token"
	"os"
	"path/filepath"
	"sort"
	"strings"

	"gtverif/internal/srcset"
)

// Kind classifies Go values of the subset.
type Kind int

const (
	KBad   Kind = iota
	KBool       // bool
	KNat        // int (lengths, counters)
	KBits       // BitSet[T] / the flag type: N
	KElem       // the element type T of Set[T]
	KSet        // Set[T]: sset T
	KList       // slice / variadic PARAMETER: list of elements
	KSlice      // locally built slice or slice result: option (list T), None = nil
	KErr        // error: bool (true = non-nil)
	KDoc        // opaque library value ([]byte, *yaml.Node, any)
	KUnit       // struct{}
	KTuple      // several results of a library call handed through
)

// Config selects the dialect.
type Config struct {
	Dialect string   // "bitset" | "set" | "store" (set.go with map identities: Set values are references into a heap)
	Roots   []string // functions to emit (with everything they call); empty = all functions of the file
	Header  string   // text placed after the generated-by line (imports, Section opening)
	Footer  string   // text placed after the definitions (Section closing)
	Indent  string
	DefAttr string // attribute put before every Definition (e.g. `#[using="All"] ` inside a Section)
}

type variable struct {
	gname   string // Gallina variable
	kind    Kind
	ty      string // Gallina type (parameters)
	aliased bool   // a map value shared by several Go variables
}

type scope struct {
	vars   map[string]*variable
	parent *scope
}

func (s *scope) lookup(name string) (*variable, bool) {
	for c := s; c != nil; c = c.parent {
		if v, ok := c.vars[name]; ok {
			return v, c == s
		}
	}
	return nil, false
}

func push(s *scope) *scope { return &scope{vars: map[string]*variable{}, parent: s} }

type param struct {
	name     string
	kind     Kind
	ty       string
	variadic bool
}

// Func is one function of the source file.
type Func struct {
	Name     string
	decl     *ast.FuncDecl
	recv     string
	recvKind Kind
	recvTy   string
	ptrRecv  bool
	params   []param
	results  []Kind
	mutates  bool // the receiver is threaded in and out
	writes   bool // store dialect: the function writes the heap (returns the heap first)
	callees  []string
	Problems []string
	body     string
}

type konts struct {
	fall    func() string         // fell off the end of the statement list
	cont    func() string         // continue (nil outside loops)
	brk     func() string         // break
	ret     func(v string) string // return of the value v: the full result of the function
	retFull func(r string) string // hand an already built full result outward
}

type xl struct {
	cfg   Config
	funcs map[string]*Func
	order []*Func
	cur   *Func
	store bool      // store dialect
	heap  *variable // store dialect: the heap variable of the current function
	// untyped integer / boolean constants of the file: name -> defining expression
	consts map[string]ast.Expr
	// active index-loop substitutions: index variable -> (slice variable name, element term)
	idx map[string][2]string
}

func (x *xl) bad(what string) string {
	x.cur.Problems = append(x.cur.Problems, what)
	return "UNSUPPORTED_" + strings.Map(func(r rune) rune {
		if r >= 'a' && r <= 'z' || r >= 'A' && r <= 'Z' || r >= '0' && r <= '9' {
			return r
		}
		return '_'
	}, what)
}

// ---------------------------------------------------------------- types

func (x *xl) elemTy() string {
	if x.cfg.Dialect == "bitset" {
		return "N"
	}
	return "T"
}

func (x *xl) elemKind() Kind {
	if x.cfg.Dialect == "bitset" {
		return KBits
	}
	return KElem
}

// typeOf maps a Go type expression to its kind and Gallina type; param says whether the type is that of a parameter.
func (x *xl) typeOf(t ast.Expr, isParam bool) (Kind, string) {
	switch tt := t.(type) {
	case *ast.ParenExpr:
		return x.typeOf(tt.X, isParam)
	case *ast.StarExpr:
		if sel, ok := tt.X.(*ast.SelectorExpr); ok && sel.Sel.Name == "Node" {
			return KDoc, "ynode"
		}
		return x.typeOf(tt.X, isParam)
	case *ast.Ident:
		switch tt.Name {
		case "bool":
			return KBool, "bool"
		case "int":
			return KNat, "nat"
		case "error":
			return KErr, "bool"
		case "any":
			return KDoc, "anyval"
		case "T":
			return x.elemKind(), x.elemTy()
		case "uint64", "uint32", "uint16", "uint8", "uint":
			if x.cfg.Dialect == "bitset" {
				return KBits, "N"
			}
		}
	case *ast.IndexExpr:
		if id, ok := tt.X.(*ast.Ident); ok {
			switch id.Name {
			case "BitSet":
				return KBits, "N"
			case "Set":
				if x.store {
					return KSet, "ref"
				}
				return KSet, "sset T"
			}
		}
	case *ast.Ellipsis:
		if k, ty := x.typeOf(tt.Elt, false); k == x.elemKind() {
			return KList, "list " + ty
		}
	case *ast.ArrayType:
		if tt.Len == nil {
			if id, ok := tt.Elt.(*ast.Ident); ok && id.Name == "byte" {
				return KDoc, "jbytes"
			}
			if k, ty := x.typeOf(tt.Elt, false); k == x.elemKind() {
				if isParam {
					return KList, "list " + ty
				}
				return KSlice, "option (list " + ty + ")"
			}
		}
	case *ast.StructType:
		if tt.Fields == nil || len(tt.Fields.List) == 0 {
			return KUnit, "unit"
		}
	case *ast.InterfaceType:
		if tt.Methods == nil || len(tt.Methods.List) == 0 {
			return KDoc, "anyval"
		}
	}
	return KBad, "UNSUPPORTED_type"
}

// ---------------------------------------------------------------- helpers on the AST

func baseIdent(e ast.Expr) string {
	switch t := e.(type) {
	case *ast.Ident:
		return t.Name
	case *ast.StarExpr:
		return baseIdent(t.X)
	case *ast.ParenExpr:
		return baseIdent(t.X)
	}
	return ""
}

func isIdent(e ast.Expr, name string) bool {
	id, ok := e.(*ast.Ident)
	return ok && id.Name == name
}

func isSetVal(e ast.Expr) bool {
	if isIdent(e, "setVal") {
		return true
	}
	if cl, ok := e.(*ast.CompositeLit); ok && len(cl.Elts) == 0 {
		if st, ok := cl.Type.(*ast.StructType); ok && (st.Fields == nil || len(st.Fields.List) == 0) {
			return true
		}
	}
	return false
}

// jumps reports whether the statements contain return / break (not inside a nested loop for break) / continue.
func hasReturn(list []ast.Stmt) bool {
	found := false
	for _, s := range list {
		ast.Inspect(s, func(n ast.Node) bool {
			switch n.(type) {
			case *ast.ReturnStmt:
				found = true
			case *ast.FuncLit:
				return false
			}
			return true
		})
	}
	return found
}

func hasBreak(list []ast.Stmt) bool {
	found := false
	var walk func(n ast.Node) bool
	walk = func(n ast.Node) bool {
		switch t := n.(type) {
		case *ast.BranchStmt:
			if t.Tok == token.BREAK {
				found = true
			}
		case *ast.ForStmt, *ast.RangeStmt, *ast.FuncLit, *ast.SwitchStmt, *ast.TypeSwitchStmt, *ast.SelectStmt:
			return false // a break in there belongs to that statement
		}
		return true
	}
	for _, s := range list {
		ast.Inspect(s, walk)
	}
	return found
}

// ---------------------------------------------------------------- expressions

func lit(v string, k Kind) string {
	if k == KBits {
		return v + "%N"
	}
	return v + "%nat"
}

// exprAs translates e; an integer literal takes the wanted kind.
func (x *xl) exprAs(e ast.Expr, env *scope, want Kind) (string, Kind) {
	if p, ok := e.(*ast.ParenExpr); ok {
		return x.exprAs(p.X, env, want)
	}
	if bl, ok := e.(*ast.BasicLit); ok && bl.Kind == token.INT {
		if want != KBits {
			want = KNat
		}
		return lit(bl.Value, want), want
	}
	if id, ok := e.(*ast.Ident); ok {
		if v, _ := env.lookup(id.Name); v == nil {
			if c, isConst := x.consts[id.Name]; isConst {
				return x.exprAs(c, push(nil), want)
			}
		}
	}
	return x.expr(e, env)
}

func (x *xl) expr(e ast.Expr, env *scope) (string, Kind) {
	switch t := e.(type) {
	case *ast.ParenExpr:
		return x.expr(t.X, env)
	case *ast.StarExpr:
		return x.expr(t.X, env)
	case *ast.Ident:
		switch t.Name {
		case "true", "false":
			return t.Name, KBool
		case "setVal":
			return "tt", KUnit
		case "nil":
			return x.bad("nil in this position"), KBad
		}
		if _, isIdx := x.idx[t.Name]; isIdx {
			return x.bad("loop index used other than as the index of its slice"), KBad
		}
		if v, _ := env.lookup(t.Name); v != nil {
			return v.gname, v.kind
		}
		if c, ok := x.consts[t.Name]; ok {
			return x.expr(c, push(nil))
		}
		return x.bad("unknown identifier " + t.Name), KBad
	case *ast.BasicLit:
		if t.Kind == token.INT {
			return lit(t.Value, KNat), KNat
		}
		return x.bad("literal " + t.Value), KBad
	case *ast.CompositeLit:
		if len(t.Elts) == 0 {
			if isSetVal(t) {
				return "tt", KUnit
			}
			if k, _ := x.typeOf(t.Type, false); k == KSlice {
				return "(Some [])", KSlice
			}
		}
		return x.bad("composite literal"), KBad
	case *ast.UnaryExpr:
		if t.Op == token.NOT {
			a, k := x.expr(t.X, env)
			if k != KBool && k != KBad {
				return x.bad("! on a non-boolean"), KBad
			}
			return "(negb " + a + ")", KBool
		}
		return x.bad("unary " + t.Op.String()), KBad
	case *ast.IndexExpr:
		// xs[i] inside an index loop over xs
		if id, ok := t.Index.(*ast.Ident); ok {
			if sub, ok := x.idx[id.Name]; ok {
				if baseIdent(t.X) == sub[0] {
					return sub[1], x.elemKind()
				}
				return x.bad("loop index applied to another slice"), KBad
			}
		}
		return x.bad("index expression"), KBad
	case *ast.BinaryExpr:
		return x.binary(t, env)
	case *ast.CallExpr:
		return x.call(t, env)
	}
	return x.bad(fmt.Sprintf("expression %T", e)), KBad
}

func (x *xl) binary(t *ast.BinaryExpr, env *scope) (string, Kind) {
	// comparisons with nil
	if t.Op == token.EQL || t.Op == token.NEQ {
		other := ast.Expr(nil)
		if isIdent(t.Y, "nil") {
			other = t.X
		} else if isIdent(t.X, "nil") {
			other = t.Y
		}
		if other != nil {
			a, k := x.expr(other, env)
			res := ""
			switch k {
			case KSet:
				res = "(set_is_nil " + a + ")"
				if x.store {
					res = "(h_is_nil " + a + ")"
				}
			case KSlice:
				res = "(sl_is_nil " + a + ")"
			case KErr:
				res = "(negb " + a + ")"
			default:
				return x.bad("comparison with nil"), KBad
			}
			if t.Op == token.NEQ {
				res = "(negb " + res + ")"
			}
			return res, KBool
		}
	}
	// a & ^b  is and-not
	if t.Op == token.AND {
		if u, ok := t.Y.(*ast.UnaryExpr); ok && u.Op == token.XOR {
			l, lk := x.exprAs(t.X, env, KBits)
			r, rk := x.exprAs(u.X, env, KBits)
			if lk == KBits && rk == KBits {
				return "(N.ldiff " + l + " " + r + ")", KBits
			}
			return x.bad("and-not on non-bit operands"), KBad
		}
	}
	// operands: a literal takes the kind of the other side
	var l, r string
	var lk, rk Kind
	if x.isLiteral(t.X, env) {
		r, rk = x.expr(t.Y, env)
		l, lk = x.exprAs(t.X, env, rk)
	} else {
		l, lk = x.expr(t.X, env)
		r, rk = x.exprAs(t.Y, env, lk)
	}
	if lk != rk {
		if lk == KBad || rk == KBad {
			return "(" + l + " " + r + ")", KBad
		}
		return x.bad("operands of different kinds for " + t.Op.String()), KBad
	}
	neg := func(s string) string { return "(negb " + s + ")" }
	switch lk {
	case KBits:
		switch t.Op {
		case token.OR:
			return "(N.lor " + l + " " + r + ")", KBits
		case token.AND:
			return "(N.land " + l + " " + r + ")", KBits
		case token.AND_NOT:
			return "(N.ldiff " + l + " " + r + ")", KBits
		case token.EQL:
			return "(N.eqb " + l + " " + r + ")", KBool
		case token.NEQ:
			return neg("(N.eqb " + l + " " + r + ")"), KBool
		case token.LSS:
			return "(N.ltb " + l + " " + r + ")", KBool
		case token.LEQ:
			return "(N.leb " + l + " " + r + ")", KBool
		case token.GTR:
			return "(N.ltb " + r + " " + l + ")", KBool
		case token.GEQ:
			return "(N.leb " + r + " " + l + ")", KBool
		}
	case KNat:
		switch t.Op {
		case token.EQL:
			return "(Nat.eqb " + l + " " + r + ")", KBool
		case token.NEQ:
			return neg("(Nat.eqb " + l + " " + r + ")"), KBool
		case token.LSS:
			return "(Nat.ltb " + l + " " + r + ")", KBool
		case token.LEQ:
			return "(Nat.leb " + l + " " + r + ")", KBool
		case token.GTR:
			return "(Nat.ltb " + r + " " + l + ")", KBool
		case token.GEQ:
			return "(Nat.leb " + r + " " + l + ")", KBool
		case token.ADD:
			return "(Nat.add " + l + " " + r + ")", KNat
		}
	case KBool:
		switch t.Op {
		case token.LOR:
			return "(orb " + l + " " + r + ")", KBool
		case token.LAND:
			return "(andb " + l + " " + r + ")", KBool
		case token.EQL:
			return "(Bool.eqb " + l + " " + r + ")", KBool
		case token.NEQ:
			return "(xorb " + l + " " + r + ")", KBool
		}
	case KElem:
		switch t.Op {
		case token.EQL:
			return "(eqb " + l + " " + r + ")", KBool
		case token.NEQ:
			return neg("(eqb " + l + " " + r + ")"), KBool
		}
	}
	return x.bad("binary " + t.Op.String()), KBad
}

// isLiteral: an integer literal or a named untyped constant (takes the kind of the other operand).
func (x *xl) isLiteral(e ast.Expr, env *scope) bool {
	switch t := stripParens(e).(type) {
	case *ast.BasicLit:
		return t.Kind == token.INT
	case *ast.Ident:
		if v, _ := env.lookup(t.Name); v == nil {
			if c, ok := x.consts[t.Name]; ok {
				return x.isLiteral(c, push(nil))
			}
		}
	}
	return false
}

// isMakeSet: make(Set[T]) / make(Set[T], n) with a well-formed size hint.
func (x *xl) isMakeSet(e ast.Expr, env *scope) bool {
	c, ok := stripParens(e).(*ast.CallExpr)
	if !ok || !isIdent(c.Fun, "make") || len(c.Args) < 1 || len(c.Args) > 2 {
		return false
	}
	if k, _ := x.typeOf(c.Args[0], false); k != KSet {
		return false
	}
	if len(c.Args) == 2 {
		saved := len(x.cur.Problems)
		_, hk := x.exprAs(c.Args[1], env, KNat)
		x.cur.Problems = x.cur.Problems[:saved]
		return hk == KNat
	}
	return true
}

// asList renders an argument for a list parameter.
func (x *xl) asList(e ast.Expr, env *scope) string {
	a, k := x.expr(e, env)
	switch k {
	case KList:
		return a
	case KSlice:
		return "(sl_items " + a + ")"
	}
	return x.bad("slice argument")
}

// callee resolves a call of a function or method of the file: the Func, the receiver expression (nil for functions).
func (x *xl) callee(c *ast.CallExpr) (*Func, ast.Expr) {
	switch fun := c.Fun.(type) {
	case *ast.Ident:
		if g, ok := x.funcs[fun.Name]; ok && g.recv == "" {
			return g, nil
		}
	case *ast.IndexExpr: // explicit instantiation f[T](..)
		if id, ok := fun.X.(*ast.Ident); ok {
			if g, ok := x.funcs[id.Name]; ok && g.recv == "" {
				return g, nil
			}
		}
	case *ast.SelectorExpr:
		if _, isPkg := fun.X.(*ast.Ident); isPkg {
			if id := fun.X.(*ast.Ident); id.Name == "json" || id.Name == "yaml" {
				return nil, nil
			}
		}
		if g, ok := x.funcs[fun.Sel.Name]; ok && g.recv != "" {
			return g, fun.X
		}
	}
	return nil, nil
}

// application renders `gen_G recv args` (without projecting the result).
func (x *xl) application(g *Func, recv ast.Expr, c *ast.CallExpr, env *scope) string {
	parts := []string{"gen_" + g.Name}
	if x.store {
		parts = append(parts, x.heap.gname)
	}
	if g.recv != "" {
		r, rk := x.expr(recv, env)
		if rk != g.recvKind {
			r = x.bad("receiver kind")
		}
		parts = append(parts, r)
	}
	i := 0
	for _, p := range g.params {
		switch {
		case p.variadic && c.Ellipsis != token.NoPos:
			if i < len(c.Args) {
				parts = append(parts, x.asList(c.Args[i], env))
				i++
			}
		case p.variadic:
			var items []string
			for ; i < len(c.Args); i++ {
				a, k := x.exprAs(c.Args[i], env, x.elemKind())
				if k != x.elemKind() {
					a = x.bad("variadic argument kind")
				}
				items = append(items, a)
			}
			parts = append(parts, "["+strings.Join(items, "; ")+"]")
		case p.kind == KList:
			if i < len(c.Args) {
				parts = append(parts, x.asList(c.Args[i], env))
				i++
			}
		default:
			if i < len(c.Args) {
				a, k := x.exprAs(c.Args[i], env, p.kind)
				if k != p.kind {
					a = x.bad("argument kind")
				}
				parts = append(parts, a)
				i++
			} else {
				parts = append(parts, x.bad("missing argument"))
			}
		}
	}
	if i != len(c.Args) {
		parts = append(parts, x.bad("argument count"))
	}
	return strings.Join(parts, " ")
}

func (x *xl) call(c *ast.CallExpr, env *scope) (string, Kind) {
	// conversions
	switch fun := c.Fun.(type) {
	case *ast.IndexExpr:
		if id, ok := fun.X.(*ast.Ident); ok && id.Name == "BitSet" && len(c.Args) == 1 {
			a, k := x.exprAs(c.Args[0], env, KBits)
			if k == KBits {
				return a, KBits
			}
			return x.bad("conversion of a non-bit value"), KBad
		}
	case *ast.Ident:
		switch fun.Name {
		case "uint64":
			// widening to the set's own width: the identity on N
			if x.cfg.Dialect == "bitset" && len(c.Args) == 1 {
				a, k := x.exprAs(c.Args[0], env, KBits)
				if k == KBits {
					return a, KBits
				}
			}
			return x.bad("conversion"), KBad
		case "T", "uint32", "uint16", "uint8", "uint", "int", "int64", "int32", "int16", "int8":
			// possibly NARROWING (BitSet[T] is a uint64, T may be 8 bits wide): not the identity on N
			return x.bad("narrowing conversion " + fun.Name + "(..)"), KBad
		case "len":
			if len(c.Args) == 1 {
				a, k := x.expr(c.Args[0], env)
				switch k {
				case KSet:
					if x.store {
						return "(h_len " + x.heap.gname + " " + a + ")", KNat
					}
					return "(set_len " + a + ")", KNat
				case KList:
					return "(length " + a + ")", KNat
				case KSlice:
					return "(sl_len " + a + ")", KNat
				}
			}
			return x.bad("len"), KBad
		case "make":
			if len(c.Args) >= 1 {
				k, _ := x.typeOf(c.Args[0], false)
				switch {
				case k == KSet && len(c.Args) <= 2:
					if len(c.Args) == 2 { // the size hint must be a well-formed length, its value is irrelevant
						if _, hk := x.exprAs(c.Args[1], env, KNat); hk != KNat {
							return x.bad("make size hint"), KBad
						}
					}
					if x.store {
						return x.bad("make of a map outside `x := make(..)` / `x = make(..)`"), KBad
					}
					return "mk_empty", KSet
				case k == KSlice && len(c.Args) == 2:
					n, nk := x.exprAs(c.Args[1], env, KNat)
					if nk == KNat {
						return "(sl_make zero " + n + ")", KSlice
					}
				case k == KSlice && len(c.Args) == 3:
					n, nk := x.exprAs(c.Args[1], env, KNat)
					if _, ck := x.exprAs(c.Args[2], env, KNat); nk == KNat && ck == KNat {
						return "(sl_make zero " + n + ")", KSlice
					}
				}
			}
			return x.bad("make"), KBad
		case "append":
			if len(c.Args) == 2 {
				a, k := x.expr(c.Args[0], env)
				if k == KSlice {
					if c.Ellipsis != token.NoPos {
						return "(sl_append_all " + a + " " + x.asList(c.Args[1], env) + ")", KSlice
					}
					b, bk := x.expr(c.Args[1], env)
					if bk == x.elemKind() {
						return "(sl_append " + a + " " + b + ")", KSlice
					}
				}
			}
			return x.bad("append"), KBad
		}
	case *ast.SelectorExpr:
		if id, ok := fun.X.(*ast.Ident); ok && id.Name == "json" && fun.Sel.Name == "Marshal" && len(c.Args) == 1 && x.cfg.Dialect == "set" {
			a, k := x.expr(c.Args[0], env)
			if k == KSlice {
				return "(lib_json_Marshal " + a + ")", KTuple
			}
			return x.bad("json.Marshal of something else than the slice"), KBad
		}
	}
	if g, recv := x.callee(c); g != nil {
		if g.mutates || g.writes {
			return x.bad("call of a mutating method inside an expression"), KBad
		}
		if len(g.results) != 1 {
			return x.bad("call of a function without a single result inside an expression"), KBad
		}
		return "(" + x.application(g, recv, c, env) + ")", g.results[0]
	}
	return x.bad("call"), KBad
}

// ---------------------------------------------------------------- statements

func (x *xl) declare(env *scope, name string, k Kind) *variable {
	if name == "_" {
		return &variable{gname: "_", kind: k}
	}
	if v, here := env.lookup(name); v != nil && !here {
		x.bad("declaration of " + name + " shadows an outer variable")
	}
	v := &variable{gname: "v_" + name, kind: k}
	env.vars[name] = v
	return v
}

// target resolves an assignable variable.
func (x *xl) target(env *scope, e ast.Expr) *variable {
	name := baseIdent(e)
	if name == "" {
		return nil
	}
	if _, isIdx := x.idx[name]; isIdx {
		x.bad("assignment to a loop index")
		return nil
	}
	v, _ := env.lookup(name)
	return v
}

func (x *xl) let(name, val, rest string, ind string) string {
	return "let " + name + " := " + val + " in\n" + ind + rest
}

// libDecode recognises json.Unmarshal(d, &v) and node.Decode(&v): library, document term, target variable.
func (x *xl) libDecode(c *ast.CallExpr, env *scope) (lib, doc string, tgt *variable, ok bool) {
	if x.cfg.Dialect != "set" {
		return
	}
	sel, isSel := c.Fun.(*ast.SelectorExpr)
	if !isSel {
		return
	}
	addrOf := func(e ast.Expr) *variable {
		if u, isU := e.(*ast.UnaryExpr); isU && u.Op == token.AND {
			if v := x.target(env, u.X); v != nil && v.kind == KSlice {
				return v
			}
		}
		return nil
	}
	if id, isId := sel.X.(*ast.Ident); isId && id.Name == "json" && sel.Sel.Name == "Unmarshal" && len(c.Args) == 2 {
		d, dk := x.expr(c.Args[0], env)
		if v := addrOf(c.Args[1]); v != nil && dk == KDoc {
			return "lib_json_Unmarshal", d, v, true
		}
		return
	}
	if sel.Sel.Name == "Decode" && len(c.Args) == 1 {
		if _, isPkg := x.funcs[sel.Sel.Name]; isPkg {
			return
		}
		d, dk := x.expr(sel.X, env)
		if v := addrOf(c.Args[0]); v != nil && dk == KDoc {
			return "lib_yaml_Decode", d, v, true
		}
	}
	return
}

// callStmt translates a call whose result goes to `res` (nil: discarded), then continues with rest.
func (x *xl) callStmt(c *ast.CallExpr, res *variable, env *scope, rest func() string, ind string) string {
	if lib, doc, tgt, ok := x.libDecode(c, env); ok {
		r := "_"
		if res != nil {
			if res.kind != KErr {
				return x.bad("library decode result is an error")
			}
			r = res.gname
		}
		if tgt.aliased {
			return x.bad("decode into an aliased variable")
		}
		return "let '(" + tgt.gname + ", " + r + ") := " + lib + " " + doc + " " + tgt.gname + " in\n" + ind + rest()
	}
	g, recv := x.callee(c)
	if g == nil {
		return x.bad("call statement")
	}
	app := x.application(g, recv, c, env)
	// what the callee returns: [heap] [receiver] [result]
	var comps []string
	if g.writes {
		comps = append(comps, x.heap.gname)
	}
	if g.mutates {
		rv := x.target(env, recv)
		if rv == nil || rv.kind != g.recvKind {
			return x.bad("mutating method called on something that is not a variable")
		}
		if rv.aliased {
			return x.bad("mutating method called on a variable that shares its map with another")
		}
		comps = append(comps, rv.gname)
	}
	if len(g.results) > 1 {
		return x.bad("several results")
	}
	if len(g.results) == 1 {
		r := "_"
		if res != nil {
			if res.kind != g.results[0] {
				return x.bad("result kind of " + g.Name)
			}
			r = res.gname
		}
		if res != nil || len(comps) > 0 {
			comps = append(comps, r)
		}
	} else if res != nil {
		return x.bad("no result")
	}
	switch len(comps) {
	case 0:
		// a pure, total function whose result is dropped
		return rest()
	case 1:
		return x.let(comps[0], app, rest(), ind)
	}
	return "let '(" + strings.Join(comps, ", ") + ") := " + app + " in\n" + ind + rest()
}

// kindOfRHS guesses the kind of a declared variable from its initialiser without emitting problems.
func (x *xl) kindOfRHS(e ast.Expr, env *scope) Kind {
	saved := len(x.cur.Problems)
	_, k := x.expr(e, env)
	x.cur.Problems = x.cur.Problems[:saved]
	return k
}

func (x *xl) stmts(list []ast.Stmt, env *scope, k konts, ind string) string {
	if len(list) == 0 {
		return k.fall()
	}
	rest := func() string { return x.stmts(list[1:], env, k, ind) }
	switch s := list[0].(type) {
	case *ast.EmptyStmt:
		return rest()
	case *ast.BlockStmt:
		inner := k
		inner.fall = rest
		return x.stmts(s.List, push(env), inner, ind)
	case *ast.DeclStmt:
		gd, ok := s.Decl.(*ast.GenDecl)
		if !ok || gd.Tok != token.VAR || len(gd.Specs) != 1 {
			return x.bad("declaration")
		}
		vs := gd.Specs[0].(*ast.ValueSpec)
		if len(vs.Names) != 1 || len(vs.Values) > 1 || vs.Type == nil {
			return x.bad("var declaration form")
		}
		kind, _ := x.typeOf(vs.Type, false)
		val := ""
		if len(vs.Values) == 1 {
			var vk Kind
			val, vk = x.exprAs(vs.Values[0], env, kind)
			if vk != kind {
				return x.bad("var initialiser kind")
			}
		} else {
			switch kind {
			case KBits:
				val = "0%N"
			case KNat:
				val = "0%nat"
			case KBool:
				val = "false"
			case KSlice:
				val = "None"
			case KErr:
				val = "false"
			case KSet:
				val = "s_nil"
				if x.store {
					val = "0%nat"
				}
			default:
				return x.bad("zero value of this type")
			}
		}
		v := x.declare(env, vs.Names[0].Name, kind)
		return x.let(v.gname, val, rest(), ind)
	case *ast.IncDecStmt:
		v := x.target(env, s.X)
		if v == nil || v.kind != KNat || s.Tok != token.INC {
			return x.bad("inc/dec")
		}
		return x.let(v.gname, "(S "+v.gname+")", rest(), ind)
	case *ast.ExprStmt:
		c, ok := s.X.(*ast.CallExpr)
		if !ok {
			return x.bad("expression statement")
		}
		if isIdent(c.Fun, "delete") && len(c.Args) == 2 {
			m := x.target(env, c.Args[0])
			key, kk := x.expr(c.Args[1], env)
			if m == nil || m.kind != KSet || kk != KElem {
				return x.bad("delete")
			}
			if x.store {
				return x.let(x.heap.gname, "h_del eqb "+x.heap.gname+" "+m.gname+" "+key, rest(), ind)
			}
			return x.let(m.gname, "set_del eqb "+m.gname+" "+key, rest(), ind)
		}
		return x.callStmt(c, nil, env, rest, ind)
	case *ast.AssignStmt:
		return x.assign(s, env, rest, ind)
	case *ast.ReturnStmt:
		return x.ret(s, env, k)
	case *ast.BranchStmt:
		if s.Label != nil {
			return x.bad("labelled branch")
		}
		switch s.Tok {
		case token.CONTINUE:
			if k.cont != nil {
				return k.cont()
			}
		case token.BREAK:
			if k.brk != nil {
				return k.brk()
			}
		}
		return x.bad("branch " + s.Tok.String())
	case *ast.IfStmt:
		return x.ifStmt(s, env, k, rest, ind)
	case *ast.SwitchStmt:
		return x.switchStmt(s, env, k, rest, ind)
	case *ast.RangeStmt:
		return x.rangeStmt(s, env, k, rest, ind)
	case *ast.ForStmt:
		return x.forStmt(s, env, k, rest, ind)
	}
	return x.bad(fmt.Sprintf("statement %T", list[0]))
}

func (x *xl) ret(s *ast.ReturnStmt, env *scope, k konts) string {
	f := x.cur
	if len(s.Results) != len(f.results) {
		// return f(...) handing several results through
		if len(s.Results) == 1 && len(f.results) == 2 {
			if c, ok := s.Results[0].(*ast.CallExpr); ok {
				v, vk := x.call(c, env)
				if vk == KTuple {
					return k.ret(v)
				}
			}
		}
		return x.bad("return arity")
	}
	if len(s.Results) == 0 {
		return k.ret("")
	}
	var vals []string
	for i, r := range s.Results {
		want := f.results[i]
		if isIdent(r, "nil") {
			switch want {
			case KSlice:
				vals = append(vals, "None")
			case KErr:
				vals = append(vals, "false")
			default:
				vals = append(vals, x.bad("nil result"))
			}
			continue
		}
		if c, ok := r.(*ast.CallExpr); ok && len(s.Results) == 1 {
			// return recv.M(...) of a mutating method: thread the receiver
			if g, recv := x.callee(c); g != nil && (g.mutates || g.writes) {
				if len(g.results) != 1 || g.results[0] != want {
					return x.bad("return of a mutating call")
				}
				var comps []string
				if g.writes {
					comps = append(comps, x.heap.gname)
				}
				if g.mutates {
					rv := x.target(env, recv)
					if rv == nil {
						return x.bad("return of a mutating call")
					}
					comps = append(comps, rv.gname)
				}
				comps = append(comps, "v_ret")
				return "let '(" + strings.Join(comps, ", ") + ") := " + x.application(g, recv, c, env) + " in " + k.ret("v_ret")
			}
		}
		v, vk := x.exprAs(r, env, want)
		if vk != want && !(want == KDoc && vk == KSlice) {
			v = x.bad("result kind")
		}
		vals = append(vals, v)
	}
	if len(vals) == 1 {
		return k.ret(vals[0])
	}
	return k.ret("(" + strings.Join(vals, ", ") + ")")
}

func (x *xl) assign(s *ast.AssignStmt, env *scope, rest func() string, ind string) string {
	// _, ok := m[k]   /   _, ok = m[k]
	if len(s.Lhs) == 2 && len(s.Rhs) == 1 {
		ix, isIx := s.Rhs[0].(*ast.IndexExpr)
		if isIdent(s.Lhs[0], "_") && isIx {
			m := x.target(env, ix.X)
			key, kk := x.expr(ix.Index, env)
			if m == nil || m.kind != KSet || kk != KElem {
				return x.bad("comma-ok lookup")
			}
			okName := baseIdent(s.Lhs[1])
			var okv *variable
			if s.Tok == token.DEFINE {
				okv = x.declare(env, okName, KBool)
			} else if okv = x.target(env, s.Lhs[1]); okv == nil || okv.kind != KBool {
				return x.bad("comma-ok target")
			}
			if x.store {
				return x.let(okv.gname, "h_has eqb "+x.heap.gname+" "+m.gname+" "+key, rest(), ind)
			}
			return x.let(okv.gname, "set_has eqb "+m.gname+" "+key, rest(), ind)
		}
		return x.bad("two-value assignment")
	}
	if len(s.Lhs) != 1 || len(s.Rhs) != 1 {
		return x.bad("multi-assignment")
	}
	lhs, rhs := s.Lhs[0], s.Rhs[0]
	// m[k] = setVal   /   r[i] = x
	if ix, ok := lhs.(*ast.IndexExpr); ok {
		if s.Tok != token.ASSIGN {
			return x.bad("index assignment operator")
		}
		m := x.target(env, ix.X)
		if m == nil {
			return x.bad("index assignment target")
		}
		switch m.kind {
		case KSet:
			key, kk := x.expr(ix.Index, env)
			if kk != KElem || !isSetVal(rhs) {
				return x.bad("map assignment")
			}
			if x.store {
				return x.let(x.heap.gname, "h_put eqb "+x.heap.gname+" "+m.gname+" "+key, rest(), ind)
			}
			return x.let(m.gname, "set_put eqb "+m.gname+" "+key, rest(), ind)
		case KSlice:
			i, ik := x.expr(ix.Index, env)
			v, vk := x.expr(rhs, env)
			if ik != KNat || vk != x.elemKind() {
				return x.bad("slice element assignment")
			}
			return x.let(m.gname, "sl_set "+m.gname+" "+i+" "+v, rest(), ind)
		}
		return x.bad("index assignment")
	}
	name := baseIdent(lhs)
	if name == "" {
		return x.bad("assignment target")
	}
	// calls with effects
	if c, ok := rhs.(*ast.CallExpr); ok && (s.Tok == token.DEFINE || s.Tok == token.ASSIGN) {
		_, _, _, isLib := x.libDecode(c, env)
		g, _ := x.callee(c)
		if isLib || (g != nil && (g.mutates || g.writes)) {
			var res *variable
			if name != "_" {
				if s.Tok == token.DEFINE {
					k := KErr
					if g != nil && len(g.results) == 1 {
						k = g.results[0]
					}
					res = x.declare(env, name, k)
				} else if res = x.target(env, lhs); res == nil {
					return x.bad("assignment target")
				}
			}
			return x.callStmt(c, res, env, rest, ind)
		}
	}
	if x.store && (s.Tok == token.DEFINE || s.Tok == token.ASSIGN) && x.isMakeSet(rhs, env) {
		// x := make(Set[T], n): a new location of the heap
		var v *variable
		if s.Tok == token.DEFINE {
			v = x.declare(env, name, KSet)
		} else if v = x.target(env, lhs); v == nil || v.kind != KSet {
			return x.bad("assignment target")
		}
		return "let '(" + x.heap.gname + ", " + v.gname + ") := h_alloc " + x.heap.gname + " in\n" + ind + rest()
	}
	if name == "_" {
		if s.Tok != token.ASSIGN {
			return x.bad("blank assignment")
		}
		if c, ok := rhs.(*ast.CallExpr); ok {
			return x.callStmt(c, nil, env, rest, ind)
		}
		return rest()
	}
	switch s.Tok {
	case token.DEFINE:
		// a map copied into another variable: alias
		if src := x.target(env, rhs); !x.store && src != nil && src.kind == KSet && baseIdent(rhs) != "" {
			if _, isVar := stripParens(rhs).(*ast.CallExpr); !isVar {
				if v, here := env.lookup(name); v != nil && !here {
					return x.bad("declaration of " + name + " shadows an outer variable")
				}
				src.aliased = true
				env.vars[name] = src
				return rest()
			}
		}
		k := x.kindOfRHS(rhs, env)
		val, vk := x.exprAs(rhs, env, k)
		v := x.declare(env, name, vk)
		return x.let(v.gname, val, rest(), ind)
	case token.ASSIGN, token.OR_ASSIGN, token.AND_ASSIGN, token.AND_NOT_ASSIGN:
		v := x.target(env, lhs)
		if v == nil {
			return x.bad("assignment to an unknown variable")
		}
		if v.aliased {
			return x.bad("assignment to a variable that shares its map with another")
		}
		if s.Tok == token.ASSIGN {
			if isIdent(rhs, "nil") {
				switch v.kind {
				case KSlice:
					return x.let(v.gname, "None", rest(), ind)
				case KSet:
					if x.store {
						return x.let(v.gname, "0%nat", rest(), ind)
					}
					return x.let(v.gname, "s_nil", rest(), ind)
				}
				return x.bad("nil assignment")
			}
			val, vk := x.exprAs(rhs, env, v.kind)
			if vk != v.kind {
				return x.bad("assignment kind")
			}
			return x.let(v.gname, val, rest(), ind)
		}
		if v.kind != KBits {
			return x.bad("bit assignment operator on a non-bit variable")
		}
		val := ""
		switch s.Tok {
		case token.OR_ASSIGN:
			r, rk := x.exprAs(rhs, env, KBits)
			if rk != KBits {
				return x.bad("operand kind")
			}
			val = "(N.lor " + v.gname + " " + r + ")"
		case token.AND_NOT_ASSIGN:
			r, rk := x.exprAs(rhs, env, KBits)
			if rk != KBits {
				return x.bad("operand kind")
			}
			val = "(N.ldiff " + v.gname + " " + r + ")"
		case token.AND_ASSIGN:
			if u, ok := stripParens(rhs).(*ast.UnaryExpr); ok && u.Op == token.XOR {
				r, rk := x.exprAs(u.X, env, KBits)
				if rk != KBits {
					return x.bad("operand kind")
				}
				val = "(N.ldiff " + v.gname + " " + r + ")"
			} else {
				r, rk := x.exprAs(rhs, env, KBits)
				if rk != KBits {
					return x.bad("operand kind")
				}
				val = "(N.land " + v.gname + " " + r + ")"
			}
		}
		return x.let(v.gname, val, rest(), ind)
	}
	return x.bad("assignment operator " + s.Tok.String())
}

func stripParens(e ast.Expr) ast.Expr {
	for {
		p, ok := e.(*ast.ParenExpr)
		if !ok {
			return e
		}
		e = p.X
	}
}

func (x *xl) ifStmt(s *ast.IfStmt, env *scope, k konts, rest func() string, ind string) string {
	env2 := push(env)
	inner := k
	inner.fall = rest
	body := func() string {
		cond, ck := x.expr(s.Cond, env2)
		if ck != KBool {
			cond = x.bad("if condition")
		}
		thenT := x.stmts(s.Body.List, push(env2), inner, ind+"  ")
		elseT := ""
		switch e := s.Else.(type) {
		case nil:
			elseT = rest()
		case *ast.BlockStmt:
			elseT = x.stmts(e.List, push(env2), inner, ind+"  ")
		case *ast.IfStmt:
			elseT = x.stmts([]ast.Stmt{e}, env2, inner, ind+"  ")
		default:
			elseT = x.bad("else form")
		}
		return "if " + cond + "\n" + ind + "then " + thenT + "\n" + ind + "else " + elseT
	}
	if s.Init != nil {
		ik := k
		ik.fall = body
		return x.stmts([]ast.Stmt{s.Init}, env2, ik, ind)
	}
	return body()
}

func (x *xl) switchStmt(s *ast.SwitchStmt, env *scope, k konts, rest func() string, ind string) string {
	if s.Init != nil || s.Tag != nil {
		return x.bad("switch with init or tag")
	}
	if hasBreak(s.Body.List) {
		return x.bad("break inside switch")
	}
	var clauses []*ast.CaseClause
	var def *ast.CaseClause
	for _, c := range s.Body.List {
		cc := c.(*ast.CaseClause)
		for _, st := range cc.Body {
			if b, ok := st.(*ast.BranchStmt); ok && b.Tok == token.FALLTHROUGH {
				return x.bad("fallthrough")
			}
		}
		if cc.List == nil {
			def = cc
		} else {
			clauses = append(clauses, cc)
		}
	}
	inner := k
	inner.fall = rest
	var chain func(i int) string
	chain = func(i int) string {
		if i == len(clauses) {
			if def != nil {
				return x.stmts(def.Body, push(env), inner, ind+"  ")
			}
			return rest()
		}
		conds := make([]string, len(clauses[i].List))
		for j, e := range clauses[i].List {
			c, ck := x.expr(e, env)
			if ck != KBool {
				c = x.bad("case condition")
			}
			conds[j] = c
		}
		cond := conds[0]
		for _, c := range conds[1:] {
			cond = "(orb " + cond + " " + c + ")"
		}
		return "if " + cond + "\n" + ind + "then " + x.stmts(clauses[i].Body, push(env), inner, ind+"  ") + "\n" + ind + "else " + chain(i+1)
	}
	return chain(0)
}

// assignedOuter lists the variables of env that the statements assign or mutate, sorted by Gallina name.
func (x *xl) assignedOuter(list []ast.Stmt, env *scope) []*variable {
	seen := map[*variable]bool{}
	local := map[string]string{} // alias declared inside the statements -> outer name
	mark := func(name string) {
		if o, ok := local[name]; ok {
			name = o
		}
		if v, _ := env.lookup(name); v != nil {
			seen[v] = true
		}
	}
	markHeap := func() {
		if x.store {
			seen[x.heap] = true
		}
	}
	var walk func(n ast.Node) bool
	walk = func(n ast.Node) bool {
		switch t := n.(type) {
		case *ast.FuncLit:
			return false
		case *ast.AssignStmt:
			for i, l := range t.Lhs {
				if ix, ok := l.(*ast.IndexExpr); ok {
					if x.store && i < len(t.Rhs) && isSetVal(t.Rhs[i]) {
						markHeap() // a map write goes to the heap, the variable keeps its reference
					} else {
						mark(baseIdent(ix.X))
					}
					continue
				}
				if x.store && i < len(t.Rhs) && len(t.Lhs) == len(t.Rhs) && x.isMakeSet(t.Rhs[i], env) {
					markHeap()
				}
				name := baseIdent(l)
				if name == "" || name == "_" {
					continue
				}
				if t.Tok == token.DEFINE {
					if !x.store && i < len(t.Rhs) && len(t.Lhs) == len(t.Rhs) {
						if src := baseIdent(t.Rhs[i]); src != "" {
							if v, _ := env.lookup(src); v != nil && v.kind == KSet {
								local[name] = src
							}
						}
					}
					continue
				}
				mark(name)
			}
		case *ast.IncDecStmt:
			mark(baseIdent(t.X))
		case *ast.UnaryExpr:
			if t.Op == token.AND {
				mark(baseIdent(t.X))
			}
		case *ast.CallExpr:
			if isIdent(t.Fun, "delete") && len(t.Args) == 2 {
				if x.store {
					markHeap()
				} else {
					mark(baseIdent(t.Args[0]))
				}
			}
			if g, recv := x.callee(t); g != nil {
				if g.mutates && recv != nil {
					mark(baseIdent(recv))
				}
				if g.writes {
					markHeap()
				}
			}
		}
		return true
	}
	for _, s := range list {
		ast.Inspect(s, walk)
	}
	out := make([]*variable, 0, len(seen))
	for v := range seen {
		out = append(out, v)
	}
	sort.Slice(out, func(i, j int) bool { return out[i].gname < out[j].gname })
	return out
}

func tuple(vars []*variable) string {
	switch len(vars) {
	case 0:
		return "tt"
	case 1:
		return vars[0].gname
	}
	parts := make([]string, len(vars))
	for i, v := range vars {
		parts[i] = v.gname
	}
	return "(" + strings.Join(parts, ", ") + ")"
}

func funPat(vars []*variable) string {
	switch len(vars) {
	case 0:
		return "(_ : unit)"
	case 1:
		return vars[0].gname
	}
	return "'" + tuple(vars)
}

func matchPat(vars []*variable) string {
	if len(vars) == 0 {
		return "_"
	}
	return tuple(vars)
}

// loop renders a loop over the list term xs whose element is bound to elem in the body.
func (x *xl) loop(xs, elem string, body []ast.Stmt, bodyEnv, env *scope, k konts, rest func() string, ind string) string {
	state := x.assignedOuter(body, env)
	tup := tuple(state)
	if !hasReturn(body) && !hasBreak(body) {
		inner := konts{fall: func() string { return tup }, cont: func() string { return tup }}
		b := x.stmts(body, bodyEnv, inner, ind+"    ")
		return "let " + funPat(state) + " := fold_left (fun " + funPat(state) + " " + elem + " =>\n" + ind + "    " + b + ") " + xs + " " + tup + " in\n" + ind + rest()
	}
	inner := konts{
		fall:    func() string { return "LNext " + tup },
		cont:    func() string { return "LNext " + tup },
		brk:     func() string { return "LBreak " + tup },
		ret:     func(v string) string { return "LRet (" + k.ret(v) + ")" },
		retFull: func(r string) string { return "LRet " + r },
	}
	b := x.stmts(body, bodyEnv, inner, ind+"      ")
	return "match loop_ret (fun " + funPat(state) + " " + elem + " =>\n" + ind + "      " + b + ") " + xs + " " + tup + " with\n" +
		ind + "| inr v_result_ => " + k.retFull("v_result_") + "\n" + ind + "| inl " + matchPat(state) + " =>\n" + ind + rest() + "\n" + ind + "end"
}

func (x *xl) rangeStmt(s *ast.RangeStmt, env *scope, k konts, rest func() string, ind string) string {
	if s.Tok != token.DEFINE && (s.Key != nil || s.Value != nil) {
		return x.bad("range assigning to existing variables")
	}
	src := x.target(env, s.X)
	if src == nil || baseIdent(s.X) == "" {
		return x.bad("range over something that is not a variable")
	}
	for _, v := range x.assignedOuter(s.Body.List, env) {
		if v == src {
			return x.bad("the ranged-over variable is modified in the loop")
		}
	}
	bodyEnv := push(env)
	switch src.kind {
	case KList, KSlice:
		xs := src.gname
		if src.kind == KSlice {
			xs = "(sl_items " + xs + ")"
		}
		keyName, valName := "_", "_"
		if s.Key != nil {
			keyName = baseIdent(s.Key)
		}
		if s.Value != nil {
			valName = baseIdent(s.Value)
		}
		if keyName != "_" && valName != "_" {
			return x.bad("range with both index and value")
		}
		if keyName != "_" {
			// for i := range xs: i only as xs[i]
			elem := "e_" + baseIdent(s.X) + "_" + keyName
			return x.indexLoop(keyName, baseIdent(s.X), elem, xs, s.Body.List, bodyEnv, env, k, rest, ind)
		}
		elem := "_"
		if valName != "_" {
			elem = x.declare(bodyEnv, valName, x.elemKind()).gname
		}
		return x.loop(xs, elem, s.Body.List, bodyEnv, env, k, rest, ind)
	case KSet:
		if s.Value != nil && !isIdent(s.Value, "_") {
			return x.bad("range over a map with a value variable")
		}
		elem := "_"
		if s.Key != nil && !isIdent(s.Key, "_") {
			elem = x.declare(bodyEnv, baseIdent(s.Key), KElem).gname
		}
		keys := "(set_keys " + src.gname + ")"
		if x.store {
			// the keys of the map at loop entry (see the package comment on ranging over a map)
			keys = "(h_keys " + x.heap.gname + " " + src.gname + ")"
		}
		return x.loop(keys, elem, s.Body.List, bodyEnv, env, k, rest, ind)
	}
	return x.bad("range over this kind of value")
}

// indexOnlyAsSubscript checks that identifier i occurs in the statements only as xs[i] and is never assigned.
func indexOnlyAsSubscript(list []ast.Stmt, i, xs string) bool {
	ok := true
	var walk func(n ast.Node) bool
	walk = func(n ast.Node) bool {
		switch t := n.(type) {
		case *ast.IndexExpr:
			if isIdent(t.Index, i) && baseIdent(t.X) == xs {
				if _, plain := stripParens(t.X).(*ast.Ident); plain {
					return false // fine, do not descend
				}
			}
		case *ast.Ident:
			if t.Name == i {
				ok = false
			}
		case *ast.FuncLit:
			ok = false
			return false
		}
		return true
	}
	for _, s := range list {
		ast.Inspect(s, walk)
	}
	return ok
}

func (x *xl) indexLoop(i, xsName, elem, xs string, body []ast.Stmt, bodyEnv, env *scope, k konts, rest func() string, ind string) string {
	if !indexOnlyAsSubscript(body, i, xsName) {
		return x.bad("loop index used other than as the index of its slice")
	}
	if _, dup := x.idx[i]; dup {
		return x.bad("nested loops over the same index name")
	}
	x.idx[i] = [2]string{xsName, elem}
	defer delete(x.idx, i)
	return x.loop(xs, elem, body, bodyEnv, env, k, rest, ind)
}

func (x *xl) forStmt(s *ast.ForStmt, env *scope, k konts, rest func() string, ind string) string {
	// for i := 0; i < len(xs); i++
	init, ok1 := s.Init.(*ast.AssignStmt)
	cond, ok2 := s.Cond.(*ast.BinaryExpr)
	post, ok3 := s.Post.(*ast.IncDecStmt)
	if !ok1 || !ok2 || !ok3 || init.Tok != token.DEFINE || len(init.Lhs) != 1 || len(init.Rhs) != 1 || post.Tok != token.INC {
		return x.bad("for loop form")
	}
	i := baseIdent(init.Lhs[0])
	if bl, ok := init.Rhs[0].(*ast.BasicLit); !ok || bl.Value != "0" || i == "" || i == "_" || baseIdent(post.X) != i {
		return x.bad("for loop form")
	}
	if cond.Op != token.LSS || !isIdent(cond.X, i) {
		return x.bad("for loop condition")
	}
	lc, ok := cond.Y.(*ast.CallExpr)
	if !ok || !isIdent(lc.Fun, "len") || len(lc.Args) != 1 {
		return x.bad("for loop condition")
	}
	xsName := baseIdent(lc.Args[0])
	if _, plain := stripParens(lc.Args[0]).(*ast.Ident); !plain {
		return x.bad("for loop bound")
	}
	src := x.target(env, lc.Args[0])
	if src == nil || (src.kind != KList && src.kind != KSlice) {
		return x.bad("for loop bound")
	}
	if v, _ := env.lookup(i); v != nil {
		return x.bad("loop index shadows a variable")
	}
	for _, v := range x.assignedOuter(s.Body.List, env) {
		if v == src {
			return x.bad("the indexed slice is modified in the loop")
		}
	}
	xs := src.gname
	if src.kind == KSlice {
		xs = "(sl_items " + xs + ")"
	}
	return x.indexLoop(i, xsName, "e_"+xsName+"_"+i, xs, s.Body.List, push(env), env, k, rest, ind)
}

// ---------------------------------------------------------------- functions

// recvType names the receiver's type without '*' and type parameters ("" for functions).
func recvType(fd *ast.FuncDecl) string {
	if fd.Recv == nil || len(fd.Recv.List) != 1 {
		return ""
	}
	t := fd.Recv.List[0].Type
	for {
		switch tt := t.(type) {
		case *ast.StarExpr:
			t = tt.X
			continue
		case *ast.ParenExpr:
			t = tt.X
			continue
		case *ast.IndexExpr:
			t = tt.X
			continue
		case *ast.IndexListExpr:
			t = tt.X
			continue
		case *ast.Ident:
			return tt.Name
		}
		return "?"
	}
}

// tiedType is the type whose methods the dialect translates.
func (x *xl) tiedType() string {
	if x.cfg.Dialect == "bitset" {
		return "BitSet"
	}
	return "Set"
}

func mentions(n ast.Node, ident string) bool {
	found := false
	if n == nil {
		return false
	}
	ast.Inspect(n, func(m ast.Node) bool {
		if id, ok := m.(*ast.Ident); ok && id.Name == ident {
			found = true
		}
		return true
	})
	return found
}

func (x *xl) collect(decls []ast.Decl) {
	for _, d := range decls {
		if gd, ok := d.(*ast.GenDecl); ok && gd.Tok == token.CONST {
			for _, sp := range gd.Specs {
				vs := sp.(*ast.ValueSpec)
				if vs.Type != nil || len(vs.Names) != len(vs.Values) {
					continue // typed constants and iota groups are not resolved
				}
				for i, n := range vs.Names {
					x.consts[n.Name] = vs.Values[i]
				}
			}
		}
		fd, ok := d.(*ast.FuncDecl)
		if !ok || fd.Body == nil {
			continue
		}
		// the whole package is read: methods of other types are not this dialect's
		if rt := recvType(fd); rt != "" && rt != x.tiedType() {
			continue
		}
		if fd.Name.Name == "init" || fd.Name.Name == "_" {
			continue
		}
		f := &Func{Name: fd.Name.Name, decl: fd}
		x.cur = f
		if fd.Recv != nil && len(fd.Recv.List) == 1 {
			r := fd.Recv.List[0]
			f.recv = "recv"
			if len(r.Names) == 1 && r.Names[0].Name != "_" {
				f.recv = r.Names[0].Name
			}
			_, f.ptrRecv = r.Type.(*ast.StarExpr)
			f.recvKind, f.recvTy = x.typeOf(r.Type, true)
		}
		for _, p := range fd.Type.Params.List {
			_, variadic := p.Type.(*ast.Ellipsis)
			k, ty := x.typeOf(p.Type, true)
			for _, n := range p.Names {
				f.params = append(f.params, param{n.Name, k, ty, variadic})
			}
			if len(p.Names) == 0 {
				f.params = append(f.params, param{"_", k, ty, variadic})
			}
		}
		if fd.Type.Results != nil {
			for _, r := range fd.Type.Results.List {
				k, _ := x.typeOf(r.Type, false)
				n := len(r.Names)
				if n == 0 {
					n = 1
				} else {
					x.bad("named results")
				}
				for i := 0; i < n; i++ {
					f.results = append(f.results, k)
				}
			}
		}
		x.funcs[f.Name] = f
		x.order = append(x.order, f)
	}
	// call graph and receiver mutation (fixpoint over calls of mutating methods on the receiver)
	for _, f := range x.order {
		seen := map[string]bool{}
		ast.Inspect(f.decl.Body, func(n ast.Node) bool {
			if c, ok := n.(*ast.CallExpr); ok {
				if g, _ := x.callee(c); g != nil && !seen[g.Name] {
					seen[g.Name] = true
					f.callees = append(f.callees, g.Name)
				}
			}
			return true
		})
	}
	for changed := true; changed; {
		changed = false
		for _, f := range x.order {
			if x.store && !f.writes && x.writesHeap(f) {
				f.writes = true
				changed = true
			}
			if f.recv == "" || f.mutates {
				continue
			}
			if x.mutatesRecv(f) {
				f.mutates = true
				changed = true
			}
		}
	}
}

// writesHeap (store dialect): the body writes a map, makes one, or calls a function that does.
func (x *xl) writesHeap(f *Func) bool {
	found := false
	ast.Inspect(f.decl.Body, func(n ast.Node) bool {
		switch t := n.(type) {
		case *ast.AssignStmt:
			for i, l := range t.Lhs {
				if _, ok := l.(*ast.IndexExpr); ok && i < len(t.Rhs) && isSetVal(t.Rhs[i]) {
					found = true
				}
			}
		case *ast.CallExpr:
			if isIdent(t.Fun, "delete") {
				found = true
			}
			if isIdent(t.Fun, "make") && len(t.Args) >= 1 {
				if k, _ := x.typeOf(t.Args[0], false); k == KSet {
					found = true
				}
			}
			if g, _ := x.callee(t); g != nil && g.writes {
				found = true
			}
		}
		return true
	})
	return found
}

func (x *xl) mutatesRecv(f *Func) bool {
	if x.store {
		// only a pointer receiver can be re-assigned; map writes go to the heap
		if !f.ptrRecv {
			return false
		}
		found := false
		ast.Inspect(f.decl.Body, func(n ast.Node) bool {
			switch t := n.(type) {
			case *ast.AssignStmt:
				for _, l := range t.Lhs {
					if st, ok := l.(*ast.StarExpr); ok && baseIdent(st.X) == f.recv {
						found = true
					}
				}
			case *ast.CallExpr:
				if g, recv := x.callee(t); g != nil && g.mutates && recv != nil && baseIdent(recv) == f.recv {
					found = true
				}
			}
			return true
		})
		return found
	}
	alias := map[string]bool{f.recv: true}
	found := false
	ast.Inspect(f.decl.Body, func(n ast.Node) bool {
		switch t := n.(type) {
		case *ast.AssignStmt:
			for i, l := range t.Lhs {
				if ix, ok := l.(*ast.IndexExpr); ok && alias[baseIdent(ix.X)] {
					found = true
				}
				if st, ok := l.(*ast.StarExpr); ok && alias[baseIdent(st.X)] {
					found = true
				}
				if t.Tok == token.DEFINE && len(t.Lhs) == len(t.Rhs) && f.recvKind == KSet {
					if _, isCall := stripParens(t.Rhs[i]).(*ast.CallExpr); !isCall && alias[baseIdent(t.Rhs[i])] && baseIdent(l) != "" {
						alias[baseIdent(l)] = true
					}
				}
			}
		case *ast.CallExpr:
			if isIdent(t.Fun, "delete") && len(t.Args) == 2 && alias[baseIdent(t.Args[0])] {
				found = true
			}
			if g, recv := x.callee(t); g != nil && g.mutates && recv != nil && alias[baseIdent(recv)] {
				found = true
			}
		}
		return true
	})
	return found
}

func (x *xl) translate(f *Func) {
	x.cur = f
	x.idx = map[string][2]string{}
	env := push(nil)
	sig := x.cfg.DefAttr + "Definition gen_" + f.Name
	if x.store {
		x.heap = &variable{gname: "v_h_", kind: KDoc}
		env.vars["\x00heap"] = x.heap
		sig += " (v_h_ : heap T)"
	}
	if f.recv != "" {
		v := x.declare(env, f.recv, f.recvKind)
		sig += " (" + v.gname + " : " + f.recvTy + ")"
	}
	for _, p := range f.params {
		v := x.declare(env, p.name, p.kind)
		g := v.gname
		if g == "_" {
			g = "v_unused_"
		}
		sig += " (" + g + " : " + p.ty + ")"
	}
	recvG := ""
	if f.recv != "" {
		recvG = "v_" + f.recv
	}
	wrap := func(v string) string {
		var comps []string
		if f.writes {
			comps = append(comps, "v_h_")
		}
		if f.mutates {
			comps = append(comps, recvG)
		}
		if v != "" {
			comps = append(comps, v)
		}
		switch len(comps) {
		case 0:
			return "tt"
		case 1:
			return comps[0]
		}
		return "(" + strings.Join(comps, ", ") + ")"
	}
	k := konts{
		ret:     wrap,
		retFull: func(r string) string { return r },
	}
	k.fall = func() string {
		if len(f.results) == 0 {
			return wrap("")
		}
		return x.bad("missing return")
	}
	body := x.stmts(f.decl.Body.List, push(env), k, x.cfg.Indent+"  ")
	f.body = x.cfg.Indent + sig + " :=\n" + x.cfg.Indent + "  " + body + ".\n"
}

// Result of a translation.
type Result struct {
	Text     string
	Emitted  []string
	Problems []string
}

// Translate parses src and renders the Gallina file.
// Translate reads the PACKAGE that path belongs to (path: the directory, or any file in it) the way
// the compiler selects its files — every non-test .go file matching the build context of the harness
// build (tag verif, Go version tags) — and renders the Gallina file.  Code delivered in a sibling
// file or behind a build constraint is therefore what gets translated; files the build rejects are
// listed in the output and never read.
func Translate(path string, cfg Config) (*Result, error) {
	dir := path
	if st, err := os.Stat(path); err != nil {
		return nil, err
	} else if !st.IsDir() {
		dir = filepath.Dir(path)
	}
	pkg, err := srcset.Load(dir, "verif")
	if err != nil {
		return nil, err
	}
	x := &xl{cfg: cfg, funcs: map[string]*Func{}, consts: map[string]ast.Expr{}, store: cfg.Dialect == "store"}
	var decls []ast.Decl
	for _, f := range pkg.Files {
		decls = append(decls, f.Decls...)
	}
	x.collect(decls)
	var pkgProblems []string
	// a function declared more than once among the matching files, init functions, writes to the
	// package variable the translation resolves by name, methods the libraries pick up implicitly
	seenDecl := map[string]string{}
	for _, f := range pkg.Files {
		for _, d := range f.Decls {
			fd, ok := d.(*ast.FuncDecl)
			if !ok || fd.Name.Name == "init" || fd.Name.Name == "_" {
				continue
			}
			key := recvType(fd) + "." + fd.Name.Name
			if prev, dup := seenDecl[key]; dup {
				pkgProblems = append(pkgProblems, "package: "+key+" is declared in "+prev+" and in "+pkg.FileOf(fd))
			}
			seenDecl[key] = pkg.FileOf(fd)
		}
	}
	for _, fd := range pkg.Inits() {
		if mentions(fd.Body, x.tiedType()) || mentions(fd.Body, "setVal") {
			pkgProblems = append(pkgProblems, "package: init() in "+pkg.FileOf(fd)+" refers to "+x.tiedType()+" / setVal")
		}
	}
	if w := pkg.WritesTo("setVal"); len(w) > 0 {
		pkgProblems = append(pkgProblems, "package: setVal is written in "+strings.Join(w, ", "))
	}
	if cfg.Dialect != "bitset" {
		// methods that encoding/json, yaml.v3 and fmt call implicitly on a Set (or on *Set) and that the
		// model of the codecs knows nothing about
		for _, m := range pkg.MethodsOf("Set") {
			switch m {
			case "MarshalText", "UnmarshalText", "IsZero", "String", "GoString", "Format", "Error":
				pkgProblems = append(pkgProblems, "package: Set declares "+m+", which the libraries call implicitly")
			}
		}
	}
	if len(cfg.Roots) == 0 {
		// every method of the tied type and every function whose signature mentions it
		for _, f := range x.order {
			if f.recv != "" || mentions(f.decl.Type, x.tiedType()) {
				cfg.Roots = append(cfg.Roots, f.Name)
			}
		}
	}
	res := &Result{}
	// which functions: roots and everything they call, callees first
	var emit []*Func
	state := map[string]int{}
	var visit func(name string)
	visit = func(name string) {
		f, ok := x.funcs[name]
		if !ok {
			return
		}
		switch state[name] {
		case 1:
			f.Problems = append(f.Problems, "recursion")
			return
		case 2:
			return
		}
		state[name] = 1
		for _, c := range f.callees {
			visit(c)
		}
		state[name] = 2
		emit = append(emit, f)
	}
	roots := cfg.Roots
	var b strings.Builder
	b.WriteString("(* GENERATED by harness/internal/setxl (dialect " + cfg.Dialect + ") from package " + shortPath(dir) + " of the current tree: files " +
		strings.Join(pkg.Names, ", ") + "; excluded by build constraints: " + strings.Join(pkg.Excluded, ", ") + " — do not edit *)\n")
	if len(pkgProblems) > 0 {
		b.WriteString("Definition package_check := UNSUPPORTED_package_layout.\n")
		res.Problems = append(res.Problems, pkgProblems...)
	}
	b.WriteString(cfg.Header)
	for _, r := range roots {
		if _, ok := x.funcs[r]; !ok {
			b.WriteString(cfg.Indent + "Definition gen_" + r + " := UNSUPPORTED_function_" + r + "_not_found.\n\n")
			res.Problems = append(res.Problems, r+": not found")
			continue
		}
		visit(r)
	}
	for _, f := range emit {
		x.translate(f)
		if state[f.Name] == 2 && contains(f.Problems, "recursion") {
			f.body = cfg.Indent + "Definition gen_" + f.Name + " := UNSUPPORTED_recursion.\n"
		}
		b.WriteString(f.body + "\n")
		res.Emitted = append(res.Emitted, f.Name)
		for _, p := range f.Problems {
			res.Problems = append(res.Problems, f.Name+": "+p)
		}
	}
	b.WriteString(cfg.Footer)
	names := make([]string, len(res.Emitted))
	for i, n := range res.Emitted { // callers first: unfolding a caller exposes its callees
		names[len(names)-1-i] = "gen_" + n
	}
	b.WriteString("Ltac gen_unfold := unfold " + strings.Join(names, ", ") + ".\n")
	// the helpers: emitted functions that are no roots
	isRoot := map[string]bool{}
	for _, r := range roots {
		isRoot[r] = true
	}
	var helpers []string
	for i := len(res.Emitted) - 1; i >= 0; i-- {
		if !isRoot[res.Emitted[i]] {
			helpers = append(helpers, "gen_"+res.Emitted[i])
		}
	}
	if len(helpers) == 0 {
		b.WriteString("Ltac gen_unfold_helpers := idtac.\n")
	} else {
		b.WriteString("Ltac gen_unfold_helpers := unfold " + strings.Join(helpers, ", ") + ".\n")
	}
	b.WriteString("(* functions translated: " + strings.Join(res.Emitted, ", ") + " *)\n")
	res.Text = b.String()
	return res, nil
}

func contains(xs []string, s string) bool {
	for _, v := range xs {
		if v == s {
			return true
		}
	}
	return false
}

func shortPath(p string) string {
	parts := strings.Split(p, "/")
	if len(parts) >= 2 {
		return strings.Join(parts[len(parts)-2:], "/")
	}
	return p
}
