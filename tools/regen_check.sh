#!/bin/sh
# regen_check.sh [repo]  — rebuild the generator CLIs from the tree and re-run every go:generate
# directive of the committed examples in a scratch copy; report files that differ from the committed ones.
repo="${1:-/repo}"
T=$(mktemp -d /tmp/regen-XXXXXX)
trap 'rm -rf "$T"' EXIT
mkdir -p "$T/src" "$T/bin"
(cd "$repo" && git ls-files -z | xargs -0 -I{} cp --parents {} "$T/src/") 2>/dev/null
# include uncommitted edits of the working tree
rsync -a --exclude .git "$repo/" "$T/src/"
export GOPROXY=off GOSUMDB=off GOTOOLCHAIN=local
for t in genum gsort gerror; do (cd "$T/src/$t" && go build -o "$T/bin/$t" ./cmd/$t) || exit 2; done
export PATH="$T/bin:$PATH"
for d in genum/internal gconfig/internal gsort/internal gsort/gen gencommon gerror/gen gerror/internal; do
  (cd "$T/src/$d" && go generate ./... >/dev/null 2>"$T/err.txt") || { echo "go generate failed in $d"; cat "$T/err.txt" | tail -5; }
done
rc=0
for f in $(cd "$T/src" && find . -name '*.genum.go' -o -name '*.gsort.go' -o -name '*.gerror.go' | sort); do
  if ! cmp -s "$T/src/$f" "$repo/$f"; then echo "DIFFERS: $f"; diff "$repo/$f" "$T/src/$f" | head -10; rc=1; fi
done
[ $rc = 0 ] && echo "all committed generated files are reproduced byte-identically by the current generators"
exit $rc
