#!/usr/bin/env python3
"""Rebuild §11 of DESIGN.md from seeded/*/meta.json."""
import json, os, re
V = os.path.dirname(os.path.dirname(os.path.abspath(__file__)))
rows = []
for d in sorted(os.listdir(os.path.join(V, "seeded")), key=lambda x: (x.split("-")[0], int(x.split("-")[1]))):
    mp = os.path.join(V, "seeded", d, "meta.json")
    if not os.path.isfile(mp):
        continue
    m = json.load(open(mp))
    c = m.get("confirmed_by_coordinator", {})
    res = c.get("check_result", "")
    if c.get("note"):
        res += " — " + c["note"]
    esc = lambda s: str(s).replace("|", "\\|").replace("\n", " ")
    rows.append("| %s | %s | %s | %s |" % (d, esc(m.get("summary", ""))[:300], esc(m.get("needs", ""))[:260], esc(res)[:420]))
txt = """## 11. Seeded changes and which checks catch them

Changes to `/repo` written by fresh sub-agents that saw only the property text and a scratch
worktree (never `/verif`); each compiles, passes the repository's tests unedited (and keeps the
committed generated files consistent), and comes with a demonstration that fails with the change and
passes without. Kept under `seeded/<id>/` (`patch.diff`, demonstration, `meta.json`). None is ever
committed to `/repo`. `tools/seedtest.sh seeded/<id> <property>` applies one to a scratch worktree of
`/repo` HEAD and runs the check against it (same effect as `git -C /repo apply` + check + `git checkout`,
without touching the tree other checks read). A seed the first version of a check missed led to a
strengthening of that check; both facts are recorded in the last column. The reverse patches of the
`fix:` commits (the pinned defects) are caught by the corpus entries that run first in every check.

| seed | change | needs | result |
|---|---|---|---|
""" + "\n".join(rows) + "\n\n"
p = os.path.join(V, "DESIGN.md")
s = open(p).read()
a = s.index("## 11. Seeded changes and which checks catch them")
b = s.index("## 12. Per-property build notes")
open(p, "w").write(s[:a] + txt + s[b:])
print("rows:", len(rows))
