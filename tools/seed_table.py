#!/usr/bin/env python3
"""Rebuild §11 of DESIGN.md from seeded/*/meta.json."""
import json, os, re
V = os.path.dirname(os.path.dirname(os.path.abspath(__file__)))
RES = {}
rp = os.path.join(V, "seeded", "RESULTS.json")
if os.path.isfile(rp):
    RES = json.load(open(rp))["results"]
RRES = {}
rp = os.path.join(V, "refactors", "RESULTS.json")
if os.path.isfile(rp):
    RRES = json.load(open(rp))["results"]
rows = []
for d in sorted((x for x in os.listdir(os.path.join(V, "seeded")) if "-" in x and x[0] == "C"), key=lambda x: (x.split("-")[0], int(x.split("-")[1]))):
    mp = os.path.join(V, "seeded", d, "meta.json")
    if not os.path.isfile(mp):
        continue
    m = json.load(open(mp))
    last = RES.get("seeded/" + d, {})
    c = m.get("confirmed_by_coordinator", {})
    res = c.get("check_result", "")
    if c.get("note"):
        res += " — " + c["note"]
    esc = lambda s: str(s).replace("|", "\\|").replace("\n", " ")
    auto = ""
    if last:
        auto = "%s (%s, /repo %s, /verif %s%s)" % (last.get("status"), last.get("when"), last.get("repo_head"), last.get("verif_commit_at_merge"),
                                                  "".join(", %ss" % r["seconds"] for r in last.get("runs", [])[:1]))
    rows.append("| %s | %s | %s | %s | %s | %s |" % (d, m.get("round", 1 if int(d.split("-")[1]) < 10 else 2), esc(m.get("summary", ""))[:300], esc(m.get("needs", ""))[:260], esc(res)[:420], esc(auto)))
rrows = []
rd = os.path.join(V, "refactors")
for d in sorted(x for x in os.listdir(rd) if os.path.isfile(os.path.join(rd, x, "meta.json"))):
    m = json.load(open(os.path.join(rd, d, "meta.json")))
    last = RRES.get("refactors/" + d, {})
    esc = lambda s: str(s).replace("|", "\\|").replace("\n", " ")
    rrows.append("| %s | %s | %s | %s | %s |" % (d, esc(m.get("kind", "")), esc(m.get("summary", ""))[:330], esc(last.get("status", "not run")),
                                              esc(m.get("note", ""))[:300]))
REFAC = """### 11b. Behaviour-preserving refactorings (false-alarm tests)

Refactorings of the code each property is anchored in, written by fresh sub-agents that saw only the property text and a
scratch worktree: renames, helper extraction/inlining, loop forms, guard clauses, stdlib replacements, constant extraction —
each verified by its author to leave every observable of the property unchanged (suite passes, generated files byte-identical).
Kept under `refactors/<id>-r<n>/` (`patch.diff`, `meta.json`).  The aim is `silent`.  Where a check still answers
`violation, no-failing-input-found`, the reason is a translator tie (T) that no longer recognises the source: the theorems are
then no longer about what the code says, the correspondence run and the widened search find no failing input, and the check
says exactly that (the replay file names the tie) — the outcome the task prescribes for a broken tie, but one we try to avoid by
making the translators accept equivalent forms and the tie lemmas semantic (see §12 notes per property).

| refactoring | kind | change | latest batch run | note |
|---|---|---|---|---|
""" + "\n".join(rrows) + "\n\n"
txt = """## 11. Seeded changes and which checks catch them

Changes to `/repo` written by fresh sub-agents that saw only the property text and a scratch
worktree (never `/verif`); each compiles, passes the repository's tests unedited (and keeps the
committed generated files consistent), and comes with a demonstration that fails with the change and
passes without. Kept under `seeded/<id>/` (`patch.diff`, demonstration, `meta.json`). None is ever
committed to `/repo`. `tools/seedtest.sh seeded/<id> <property>` applies one to a scratch worktree of
`/repo` HEAD and runs the check against it (same effect as `git -C /repo apply` + check + `git checkout`,
without touching the tree other checks read). A seed the first version of a check missed led to a
strengthening of that check; both facts are recorded in the last column. The reverse patches of the
`fix:` commits (the pinned defects) are caught by the corpus entries that run first in every check.

Rounds: 1–3 and 4 are black-box rounds (authors saw only the property text; each miss led to a strengthening, described in
the history column and in §12); `4w` are the white-box candidates of `design_notes/ADVERSARY.md` (authors read `/verif`);
round 5 was written after the last hardening and is a held-out measurement: nothing was changed for it except where the
history column says so; rounds 6 and 7 (session 4: two fresh black-box changes per property, ten properties each, authors
saw only the property text and a scratch worktree) are again measure-then-strengthen rounds - the history column gives the
FIRST result of the check as it stood and what was generalised after a miss (round 6: 17 of 20 caught with a failing input at
first, C02-61 only through the broken tie, C13-61 and C13-62 silent; all 20 caught with a failing input after the
strengthenings, which also catch round 5's C12-51; round 7: 18 of 20 caught with a failing input at first, C14-71 only
through the broken map-range tie, C14-72 silent; all 20 after the strengthenings; round 8 (16 changes for eight properties):
12 at first, C10-82 and C05-81 only through a broken translator tie, C05-82 and C13-81 silent; all 16 after the strengthenings).

The column *latest batch run* is written by `tools/batchtest.py` + `tools/merge_results.py` (quick tier, the check run
exactly as registered, against a scratch worktree with the change applied): `violation with failing input` = caught with a
concrete replay; `violation, no-failing-input-found` = only a tie/obligation broke; `silent` = missed.

| seed | round | change | needs | history (first result, strengthening) | latest batch run |
|---|---|---|---|---|---|
""" + "\n".join(rows) + "\n\n" + REFAC
p = os.path.join(V, "DESIGN.md")
s = open(p).read()
a = s.index("## 11. Seeded changes and which checks catch them")
b = s.index("## 12. Per-property build notes")
open(p, "w").write(s[:a] + txt + s[b:])
print("rows:", len(rows))
