#!/usr/bin/env python3
"""merge_results.py <target RESULTS.json> <batchtest output>...  — keep the latest batchtest outcome per directory."""
import json, os, subprocess, sys, time
V = os.path.dirname(os.path.dirname(os.path.abspath(__file__)))
tgt = sys.argv[1]
doc = json.load(open(tgt)) if os.path.isfile(tgt) else {"results": {}}
vc = subprocess.run(["git", "-C", V, "rev-parse", "--short", "HEAD"], capture_output=True, text=True).stdout.strip()
for p in sys.argv[2:]:
    r = json.load(open(p))
    for x in r["results"]:
        runs = x.get("runs") or []
        e = {"repo_head": r.get("repo_head"), "verif_commit_at_merge": vc, "tier": r.get("tier"),
             "when": time.strftime("%Y-%m-%d %H:%M", time.gmtime(os.path.getmtime(p)))}
        if x.get("error"):
            e["status"] = "error: " + x["error"][:120]
        else:
            e["runs"] = [{k: y[k] for k in ("property", "exit", "violations", "with_failing_input", "known", "seconds")} for y in runs]
            e["status"] = ("silent" if all(y["exit"] == 0 and y["violations"] == 0 for y in runs) else
                           "violation with failing input" if any(y["with_failing_input"] for y in runs) else
                           "violation, no-failing-input-found" if any(y["violations"] for y in runs) else "check error (exit %s)" % runs[0]["exit"])
            fv = next((y.get("first_violation") for y in runs if y.get("first_violation")), "")
            e["replay_excerpt"] = next((y.get("replay_excerpt", "")[:400] for y in runs if y.get("replay_excerpt")), "")
        doc["results"][x["dir"]] = e
json.dump(doc, open(tgt, "w"), indent=1, sort_keys=True)
from collections import Counter
print(Counter(v["status"].split(":")[0] for v in doc["results"].values()))
