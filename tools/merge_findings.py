#!/usr/bin/env python3
"""known_findings.json is THE known-findings file the checks read.  Its entries are maintained per
property group in known_findings.d/*.json (plus the coordinator's own block below); this script
rebuilds the single file from them.  Never run by a check."""
import json, glob, os
V = os.path.dirname(os.path.dirname(os.path.abspath(__file__)))
own = [
    {"property": "C11", "status": "fixed", "commit": "a37dd1b",
     "what": "fixed: property=C11 a37dd1b BitSet.Remove returned false when only part of a composite flag was present (s=0b0011, Remove(0b0110) clears a bit, returned false) and true for the zero flag"},
    {"property": "C07", "status": "fixed", "commit": "ad9c99c",
     "what": "fixed: property=C07 ad9c99c Set.Has returned false when the argument list was longer than the set, e.g. Make(\"a\").Has(\"a\",\"a\")"},
]
allf = list(own)
for f in sorted(glob.glob(os.path.join(V, "known_findings.d", "*.json"))):
    for e in json.load(open(f)).get("findings", []):
        e = dict(e)
        e["source"] = "known_findings.d/" + os.path.basename(f)
        if e.get("status") == "fixed" and not str(e.get("what", "")).startswith("fixed: property="):
            e["what"] = "fixed: property=%s %s %s" % (e.get("property"), e.get("commit", "?"), e.get("what", ""))
        allf.append(e)
doc = {"_comment": "Single known-findings file read by every check (tools/vlib.py load_findings). Rebuilt by tools/merge_findings.py from "
                   "known_findings.d/*.json; never written at run time. `open` entries print KNOWN-FINDING and are subtracted from a run's "
                   "violations when ALL keys of `match` equal the features of the failing case (never on the property id alone); `fixed` "
                   "entries are documentation only and suppress nothing.",
       "merged": True, "findings": allf}
json.dump(doc, open(os.path.join(V, "known_findings.json"), "w"), indent=1)
print(len(allf), "entries;", sum(1 for e in allf if e.get("status") == "open"), "open")
