#!/bin/sh
# finalize.sh — consolidation at a quiet point (no builder running):
#   clean Coq rebuild, global forbidden-word gate, all quick checks on /repo (evidence), schema validation,
#   regenerated documents and MANIFEST.  Prints a summary; commits nothing.
cd "$(dirname "$0")/.." || exit 2
set -u
echo "== findings"; python3 tools/merge_findings.py
echo "== clean Coq build"; (cd coq && find . -name '*.vo' -o -name '*.vos' -o -name '*.vok' -o -name '*.glob' -o -name '.*.aux' | xargs rm -f; rm -f .Makefile.d Makefile Makefile.conf _CoqProject)
s=$(date +%s); ./check --setup > /tmp/finalize-setup.log 2>&1; echo "setup rc=$? in $(( $(date +%s) - s ))s"; grep -c "FAILED" /tmp/finalize-setup.log
echo "== forbidden vernacular anywhere in the development (comments stripped)"
python3 - <<'P'
import os, re, sys
sys.path.insert(0, "tools"); import vlib
bad = 0
for root in ("coq/theories", "coq/ties"):
    for d, _, fs in os.walk(root):
        for f in fs:
            if f.endswith(".v"):
                t = vlib.strip_comments(open(os.path.join(d, f)).read())
                for m in vlib.FORBIDDEN.finditer(t):
                    print("  ", os.path.join(d, f), m.group(0)); bad += 1
                if re.search(r"^\s*(Variable|Hypothesis|Variables|Hypotheses|Context)\b", t, re.M) and "Section" not in t:
                    print("  ", os.path.join(d, f), "Variable/Hypothesis outside a Section"); bad += 1
print("forbidden occurrences:", bad)
P
echo "== quick checks on /repo"; tools/runall.sh quick | tee /tmp/finalize-runall.log
echo "== schema validation"
python3-vt - <<'P'
import json, jsonschema, glob
jsonschema.validate(json.load(open("MANIFEST.json")), json.load(open("/root/.vp/MANIFEST.schema.json")))
es = json.load(open("/root/.vp/EVIDENCE.schema.json")); bad = 0
for f in sorted(glob.glob("evidence/*.json")):
    try: jsonschema.validate(json.load(open(f)), es)
    except Exception as e: print(f, "INVALID", str(e)[:200]); bad += 1
print("manifest ok; invalid evidence files:", bad)
P
echo "== documents"; python3 tools/defects_table.py; python3 tools/merge_notes.py; python3 tools/seed_table.py; python3 tools/trusted_table.py; python3 tools/mkmanifest.py
