#!/bin/sh
# runall.sh [tier]  — run every claimed check sequentially against /repo; one summary line each
tier="${1:-quick}"
cd "$(dirname "$0")/.." || exit 2
for p in $(cat tools/claimed.txt); do
  s=$(date +%s)
  out=$(./check $p --tier $tier 2>&1 | grep -v "WARNING conda")
  rc=$?
  e=$(( $(date +%s) - s ))
  v=$(echo "$out" | grep -c "^VIOLATION")
  k=$(echo "$out" | grep -c "^KNOWN-FINDING")
  last=$(echo "$out" | tail -1)
  echo "$p ${e}s violations=$v known=$k :: $last"
  if [ "$v" != "0" ]; then echo "$out" | grep "VIOLATION\|BROKEN" | head -5; fi
done
