#!/usr/bin/env python3
"""Regenerate /verif/MANIFEST.json from the META of every props/Cxx.py (and NOT_APPLICABLE)."""
import importlib
import json
import os
import sys

here = os.path.dirname(os.path.abspath(__file__))
sys.path.insert(0, here)
import vlib  # noqa: E402
sys.path.insert(0, os.path.join(vlib.VERIF, "props"))

BASELINE = ("for m in gconfig gencommon genum gerror gogenproto gogenproto/internal gsort gsync log rutils set; do "
            "(cd /repo/$m && GOPROXY=off GOSUMDB=off GOTOOLCHAIN=local go test -json -vet=off -count=1 -timeout 25m ./...); done")

checks, claimed = [], set()
CLAIMED = [l.strip() for l in open(os.path.join(here, "claimed.txt")) if l.strip()]
for f in sorted(os.listdir(os.path.join(vlib.VERIF, "props"))):
    if not (f.startswith("C") and f.endswith(".py")) or f[:-3] not in CLAIMED:
        continue
    pid = f[:-3]
    m = importlib.import_module(pid).META
    claimed.add(pid)
    checks.append({
        "property_id": pid,
        "quick_cmd": "./check %s --tier quick" % pid,
        "thorough_cmd": "./check %s --tier thorough" % pid,
        "evidence_file": "/verif/evidence/%s.json" % pid,
        "replay_cmd_template": "./check %s --replay {path}" % pid,
        "engine": "coq+corr",
        "level_claimed": {"category": m.get("level", "proof"), "text": m["level_text"],
                          "design_ref": m.get("design_ref", "DESIGN.md §4")},
        "level_note": m["level_note"],
        "technique": m["technique"],
    })
na_path = os.path.join(vlib.VERIF, "not_applicable.json")
na = json.load(open(na_path)) if os.path.isfile(na_path) else []
na = [x for x in na if x["property_id"] not in claimed]
man = {
    "version": 1,
    "setup_cmd": "./check --setup",
    "hooks": {"guard": "verif", "enable": "verification-only files are added to a scratch copy of /repo and the harness is built with -tags verif; nothing guarded lives in /repo",
              "baseline_off_cmd": BASELINE, "source_commits": [], "add_only": True},
    "engines": [
        {"name": "coq", "path": "coq/", "serves_properties": sorted(claimed),
         "kind_free_text": "Coq 8.16.1 development: executable models, proofs, property theorems (Props/Cxx.v)"},
        {"name": "corr", "path": "harness/ tools/ props/", "serves_properties": sorted(claimed),
         "kind_free_text": "Go harnesses run the current tree; observations are judged inside Coq (vm_compute) against model and spec"},
    ],
    "checks": checks,
    "not_applicable": na,
    "notes": "Machine-checked proof in Coq 8.16.1; see DESIGN.md. known_findings.json lists fixed and open findings.",
}
json.dump(man, open(os.path.join(vlib.VERIF, "MANIFEST.json"), "w"), indent=1)
print("MANIFEST.json: %d checks, %d not_applicable" % (len(checks), len(na)))
