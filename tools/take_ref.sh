#!/bin/sh
# take_ref.sh Cxx [srcroot] — copy <srcroot>/Cxx/R{1,2,3} (default /tmp/ref8-out) to refactors/Cxx-r<next>.. ; prints the new dirs
p="$1"; root="${2:-/tmp/ref8-out}"; cd "$(dirname "$0")/.." || exit 2
n=$(ls refactors | grep "^$p-r" | sed "s/^$p-r//" | sort -n | tail -1); n=${n:-0}
for r in R1 R2 R3; do
  src=$root/$p/$r; [ -f "$src/patch.diff" ] || continue
  n=$((n+1)); dst=refactors/$p-r$n; mkdir -p "$dst"; cp "$src/patch.diff" "$src/meta.json" "$dst"/
  python3 - "$dst/meta.json" "$p" <<'PY'
import json,sys
f,p=sys.argv[1],sys.argv[2]
try: m=json.load(open(f))
except Exception as e: m={"summary":"(meta.json unreadable: %s)"%e}
m["property"]=p; m["session"]=4
json.dump(m,open(f,"w"),indent=1)
PY
  echo "$dst"
done
