#!/usr/bin/env python3
"""Rebuild §5a of DESIGN.md (defects confirmed and their disposition) from the findings files and /repo's log."""
import json, glob, re, os, subprocess
V = os.path.dirname(os.path.dirname(os.path.abspath(__file__)))
allf = json.load(open(os.path.join(V, "known_findings.json")))["findings"]
for f in sorted(glob.glob(os.path.join(V, "known_findings.d", "*.json"))):
    allf += json.load(open(f)).get("findings", [])
subjects = {}
for l in subprocess.run(["git", "-C", "/repo", "log", "--format=%h %s"], capture_output=True, text=True).stdout.splitlines():
    h, s = l.split(" ", 1)
    subjects[h] = s
seen, fixed, openf = set(), {}, []
for e in allf:
    w = re.sub(r"^fixed: property=\w+ \w+ ", "", e.get("what", ""))
    if e.get("status") == "fixed":
        c = e.get("commit", "?")
        fixed.setdefault(c, {"props": set(), "what": w})
        fixed[c]["props"].add(e["property"])
        if len(w) > len(fixed[c]["what"]):
            pass
    else:
        k = (e["property"], e.get("id"))
        if k not in seen:
            seen.add(k)
            openf.append((e["property"], e.get("id", "?"), json.dumps(e.get("match")), w))
order = list(subjects.keys())[::-1]
esc = lambda s: str(s).replace("|", "\\|").replace("\n", " ")
out = ["## 5a. Defects confirmed by the checks and their disposition (actual)\n",
       "Every row was first reported by a property's own check on the tree as it stood (`VIOLATION` with a minimised failing",
       "input, or a `_refuted` theorem whose witness was replayed on the real code), then repaired by one `fix:` commit in `/repo`",
       "(the repository's suite passes unedited — `tools/baseline.py`: 397/397; committed generated files regenerate",
       "byte-identically — `tools/regen_check.sh`) or recorded as an open finding. `fixed` entries suppress nothing.\n",
       "| # | fix commit | properties | commit subject | what failed |", "|---|---|---|---|---|"]
n = 0
for c in order:
    if c in fixed:
        n += 1
        out.append("| %d | `%s` | %s | %s | %s |" % (n, c, ", ".join(sorted(fixed[c]["props"])), esc(subjects.get(c, "")),
                                                   esc(fixed[c]["what"])[:380]))
for c in fixed:
    if c not in subjects:
        out.append("| ? | `%s` | %s | (not found in /repo log) | %s |" % (c, ", ".join(sorted(fixed[c]["props"])), esc(fixed[c]["what"])[:300]))
unlisted = [c for c in order if c not in fixed and subjects[c].startswith("fix:")]
out += ["", "Open findings (the check prints `KNOWN-FINDING:` and exits 0; matched on the features shown, so a different violation",
        "of the same property is still reported):\n", "| property | id | match | what fails | why not repaired |", "|---|---|---|---|---|"]
why = {"C12-parsable-bool-trait-no-codec-family": "needs a new bool fallback family in the JSON, text and YAML decoders of the template (feature-sized, not a small repair)",
       "C12-parsable-duration-trait-yaml-rendering": "yaml.v3 renders time.Duration as `1m18s`; reading that back needs a Duration-aware fallback; the limitation is documented in genum/README.md",
       "C12-parsable-bool-and-duration": "combination of the two above in one enum"}
for p, i, m, w in sorted(openf):
    out.append("| %s | %s | `%s` | %s | %s |" % (p, i, esc(m), esc(w)[:300], why.get(i, "")))
if unlisted:
    out += ["", "fix commits without a findings entry: " + ", ".join("`%s`" % c for c in unlisted)]
txt = "\n".join(out) + "\n\n"
p = os.path.join(V, "DESIGN.md")
s = open(p).read()
a, b = s.index("## 5a."), s.index("## 6. Not applicable")
open(p, "w").write(s[:a] + txt + s[b:])
print(n, "fix commits listed;", len(openf), "open findings; unlisted fix commits:", unlisted)
