#!/usr/bin/env python3
"""Entry point of every check: ./check Cxx [--tier quick|thorough] [--replay file] | --setup"""
import argparse
import importlib
import os
import sys
import traceback

sys.path.insert(0, os.path.dirname(os.path.abspath(__file__)))
import vlib  # noqa: E402

sys.path.insert(0, os.path.join(vlib.VERIF, "props"))


def setup():
    """build the Coq development from scratch-or-incrementally and warm the Go build cache"""
    with open(os.path.join(vlib.COQ, ".lock"), "w"):
        pass
    vlib.ensure_coqproject()
    claimed = [l.strip() for l in open(os.path.join(vlib.VERIF, "tools", "claimed.txt")) if l.strip()]
    targets = []
    for pid in claimed:
        meta = importlib.import_module(pid).META
        targets.append("theories/Props/%s.vo" % pid)
        targets += ["theories/" + t for t in meta.get("coq_targets", [])]
    rc, out = vlib.sh(["timeout", "3000", "make", "-j16"] + sorted(set(targets)), cwd=vlib.COQ, timeout=3100)
    print(out[-3000:])
    if rc != 0:
        print("setup: coq build failed")
        return 1
    # warm the Go build cache (best effort; every check builds its own harness anyway)
    ctx = vlib.Ctx("setup", "quick", 0)
    try:
        h = ctx.harness_module()
        for c in sorted(os.listdir(os.path.join(h, "cmd"))):
            rc2, out = vlib.sh(["go", "build", "-trimpath", "-tags", "verif", "-o", os.devnull, "./cmd/" + c],
                               cwd=h, env=vlib.go_env(), timeout=900)
            print("go build cmd/%s: %s" % (c, "ok" if rc2 == 0 else "FAILED (ignored in setup)\n" + out[-500:]))
    finally:
        import shutil
        shutil.rmtree(ctx.scratch, ignore_errors=True)
    return 0


def main():
    ap = argparse.ArgumentParser()
    ap.add_argument("prop", nargs="?")
    ap.add_argument("--tier", default=os.environ.get("VERIF_TIER", "quick"),
                    choices=["quick", "thorough"])
    ap.add_argument("--replay")
    ap.add_argument("--setup", action="store_true")
    a = ap.parse_args()
    if a.setup:
        sys.exit(setup())
    if not a.prop:
        ap.error("property id required")
    try:
        seed = int(os.environ.get("VERIF_SEED", "1"))
    except ValueError:
        seed = 1
    mod = importlib.import_module(a.prop)
    ctx = vlib.Ctx(a.prop, a.tier, seed)
    ctx.allowed_axioms = mod.META.get("allowed_axioms", [])
    ctx.coq_targets = mod.META.get("coq_targets", [])
    try:
        if a.replay:
            rc = mod.replay(ctx, a.replay)
            import shutil
            shutil.rmtree(ctx.scratch, ignore_errors=True)
            sys.exit(rc)
        mod.run(ctx)
        sys.exit(ctx.finish(mod.META.get("level", "proof")))
    except SystemExit:
        raise
    except BaseException:
        # the machinery itself failed (a harness that no longer builds against a changed API, a plugin bug):
        # the property is not shown to hold on this tree, and no failing input is known
        tb = traceback.format_exc()
        sys.stderr.write(tb)
        if a.replay:
            sys.exit(2)
        try:
            ctx.report({"unchecked": "the check's own machinery failed before it could decide the property",
                        "detail": tb[-4000:]}, {"kind": "machinery_crash"}, failing_input=False)
            rc = ctx.finish(mod.META.get("level", "proof"))
        except BaseException:
            traceback.print_exc()
            rc = 2
        sys.exit(rc or 1)


if __name__ == "__main__":
    main()
