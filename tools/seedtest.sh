#!/bin/sh
# seedtest.sh <seed-dir containing patch.diff> <property id> [tier]
# applies the seeded change to a scratch worktree of /repo HEAD, runs the check against it, removes the worktree
d="$(cd "$1" && pwd)"; p="$2"; tier="${3:-quick}"
wt=$(mktemp -d /tmp/seedwt-XXXXXX); rmdir "$wt"
git -C /repo worktree add -q "$wt" HEAD || exit 2
if ! git -C "$wt" apply "$d/patch.diff"; then echo "PATCH DOES NOT APPLY"; git -C /repo worktree remove --force "$wt"; exit 2; fi
VERIF_REPO="$wt" /verif/check "$p" --tier "$tier" 2>&1 | grep -v "WARNING conda" | tail -${SEEDTAIL:-4}
rc=$?
git -C /repo worktree remove --force "$wt"
