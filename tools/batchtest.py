#!/usr/bin/env python3
"""batchtest.py [-j N] [--tier quick] [--out results.json] <dir> [<dir> ...]

For every directory (a seeded change or a behaviour-preserving refactoring holding patch.diff and
meta.json with "property"): apply patch.diff to a scratch worktree of /repo HEAD, run the property's
check against it (VERIF_REPO), remove the worktree.  Records, per directory: exit code, VIOLATION lines,
KNOWN-FINDING lines, whether a failing input was found, duration, repo HEAD.  Nothing is written to /repo.
"""
import argparse, concurrent.futures as cf, json, os, re, subprocess, sys, tempfile, time

V = os.path.dirname(os.path.dirname(os.path.abspath(__file__)))


def head():
    return subprocess.run(["git", "-C", "/repo", "rev-parse", "--short", "HEAD"], capture_output=True, text=True).stdout.strip()


def one(d, tier, props_override=None):
    d = os.path.abspath(d)
    meta = json.load(open(os.path.join(d, "meta.json")))
    props = props_override or meta.get("check_with") or [meta["property"]]
    if isinstance(props, str):
        props = [props]
    res = {"dir": os.path.relpath(d, V), "props": props, "runs": []}
    wt = tempfile.mkdtemp(prefix="bt-wt-", dir="/tmp")
    os.rmdir(wt)
    r = subprocess.run(["git", "-C", "/repo", "worktree", "add", "-q", "--detach", wt, "HEAD"], capture_output=True, text=True)
    if r.returncode != 0:
        res["error"] = "worktree: " + r.stderr[-300:]
        return res
    try:
        r = subprocess.run(["git", "-C", wt, "apply", os.path.join(d, "patch.diff")], capture_output=True, text=True)
        if r.returncode != 0:
            res["error"] = "patch does not apply: " + r.stderr[-300:]
            return res
        for p in props:
            t0 = time.time()
            outd = os.path.join("/tmp", "bt-out-" + os.path.basename(d))
            env = dict(os.environ, VERIF_REPO=wt, VERIF_OUT=outd)
            try:
                r = subprocess.run([os.path.join(V, "check"), p, "--tier", tier], capture_output=True, text=True, env=env, timeout=3 * 3600)
                out, rc = r.stdout + r.stderr, r.returncode
            except subprocess.TimeoutExpired as e:
                out, rc = "TIMEOUT", 124
            lines = [l for l in out.splitlines() if "WARNING conda" not in l]
            vio = [l for l in lines if l.startswith("VIOLATION")]
            res["runs"].append({
                "property": p, "exit": rc, "seconds": round(time.time() - t0, 1),
                "violations": len(vio),
                "with_failing_input": len([l for l in vio if "no-failing-input-found" not in l]),
                "known": len([l for l in lines if l.startswith("KNOWN-FINDING")]),
                "first_violation": vio[0] if vio else "",
                "tail": lines[-6:],
            })
            if vio and not props_override:
                m = re.search(r"replay=(\S+)", vio[0])
                if m and os.path.isfile(m.group(1)):
                    try:
                        rp = json.load(open(m.group(1)))
                        res["runs"][-1]["replay_excerpt"] = json.dumps(rp, sort_keys=True)[:1500]
                    except Exception:
                        pass
            subprocess.run(["rm", "-rf", outd])
    finally:
        subprocess.run(["git", "-C", "/repo", "worktree", "remove", "--force", wt], capture_output=True)
        subprocess.run(["rm", "-rf", wt])
    return res


def main():
    ap = argparse.ArgumentParser()
    ap.add_argument("-j", type=int, default=3)
    ap.add_argument("--tier", default="quick")
    ap.add_argument("--out", default="")
    ap.add_argument("--props", default="", help="comma list overriding the property of every dir")
    ap.add_argument("dirs", nargs="+")
    a = ap.parse_args()
    po = a.props.split(",") if a.props else None
    results = {"repo_head": head(), "tier": a.tier, "results": []}
    with cf.ThreadPoolExecutor(a.j) as ex:
        futs = {ex.submit(one, d, a.tier, po): d for d in a.dirs}
        for f in cf.as_completed(futs):
            r = f.result()
            results["results"].append(r)
            s = " ".join("%s:exit=%s,viol=%s,fi=%s,%ss" % (x["property"], x["exit"], x["violations"], x["with_failing_input"], x["seconds"]) for x in r.get("runs", []))
            print(r["dir"], r.get("error", ""), s, flush=True)
            if a.out:
                results["results"].sort(key=lambda x: x["dir"])
                json.dump(results, open(a.out, "w"), indent=1)
    bad = [r for r in results["results"] if r.get("error")]
    sys.exit(2 if bad else 0)


if __name__ == "__main__":
    main()
