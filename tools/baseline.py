#!/usr/bin/env python3
"""Run the repository's pinned test suite (as /root/.vp/BASELINE.json does) in a tree and compare
with the stable_pass list.  usage: baseline.py [repo-dir]   (default /repo)"""
import json, os, subprocess, sys
repo = sys.argv[1] if len(sys.argv) > 1 else "/repo"
base = json.load(open("/root/.vp/BASELINE.json"))
want = set(base["stable_pass"])
mods = ["gconfig", "gencommon", "genum", "gerror", "gogenproto", "gogenproto/internal", "gsort", "gsync", "log", "rutils", "set"]
env = dict(os.environ, GOPROXY="off", GOSUMDB="off", GOTOOLCHAIN="local")
env.pop("GOFLAGS", None)
res = {}
for m in mods:
    d = os.path.join(repo, m)
    if not os.path.isdir(d):
        continue
    p = subprocess.run(["go", "test", "-json", "-vet=off", "-count=1", "-timeout", "25m", "./..."], cwd=d, env=env,
                       stdout=subprocess.PIPE, stderr=subprocess.STDOUT, text=True)
    for line in p.stdout.splitlines():
        try:
            e = json.loads(line)
        except ValueError:
            continue
        if e.get("Test") and e.get("Action") in ("pass", "fail", "skip"):
            res["%s::%s" % (e["Package"], e["Test"])] = e["Action"]
        elif e.get("Action") == "fail" and not e.get("Test"):
            print("PACKAGE FAIL", e.get("Package"))
passed = {k for k, v in res.items() if v == "pass"}
missing = sorted(want - passed)
print("baseline: %d of %d stable tests pass; %d other tests ran" % (len(want & passed), len(want), len(set(res) - want)))
for k in missing[:40]:
    print("  NOT PASSING:", k, res.get(k, "(did not run)"))
# the repository's own generator test rewrites a committed file; report a dirty tree
st = subprocess.run(["git", "-C", repo, "status", "--short"], stdout=subprocess.PIPE, text=True).stdout.strip()
if st:
    print("tree dirty after tests:\n" + st)
sys.exit(1 if missing else 0)
