#!/usr/bin/env python3
"""Dev helper: show the proof state just before line N of a .v file (line numbers 1-based).
usage: goal.py FILE LINE [extra tactic text to insert before Show]"""
import sys, subprocess, os, tempfile
f, n = sys.argv[1], int(sys.argv[2])
extra = sys.argv[3] if len(sys.argv) > 3 else ""
lines = open(f).read().split("\n")
body = "\n".join(lines[:n-1]) + "\n" + extra + "\nShow.\n"
d = os.path.dirname(os.path.abspath(f))
tmp = os.path.join(d, "Tmp_goal_%d.v" % os.getpid())
open(tmp, "w").write(body)
root = "/verif/coq/theories"
try:
    r = subprocess.run(["coqc", "-Q", root, "GT", tmp], capture_output=True, text=True, timeout=300)
    print(r.stdout[-6000:]); print(r.stderr[-3000:])
finally:
    for ext in (".v", ".vo", ".glob", ".vok", ".vos"):
        p = tmp[:-2] + ext
        if os.path.exists(p): os.remove(p)
    a = os.path.join(d, "." + os.path.basename(tmp)[:-2] + ".aux")
    if os.path.exists(a): os.remove(a)
