"""vlib — shared machinery of the gtools verification checks.

A check (props/Cxx.py) is a python module with META (manifest fields) and run(ctx).  This
library gives it: a scratch copy of the current /repo tree, the Go harness build, the Coq
build of the property's theorem file (proof obligations + Print Assumptions + grep gate),
in-kernel evaluation of generated case files (sharded, parallel), known-findings matching,
VIOLATION / KNOWN-FINDING lines, replay files and the evidence file.
"""
import concurrent.futures
import fcntl
import hashlib
import json
import os
import re
import shutil
import subprocess
import sys
import tempfile
import time

VERIF = os.path.dirname(os.path.dirname(os.path.abspath(__file__)))
REPO = os.environ.get("VERIF_REPO", "/repo")
# evidence and replay files go to /verif only for runs against /repo itself; experiments against another
# tree (VERIF_REPO: seeded changes, refactorings) write them to VERIF_OUT (default: a directory under /tmp)
OUT = os.environ.get("VERIF_OUT") or (VERIF if os.path.realpath(REPO) == "/repo" else
                                      os.path.join(tempfile.gettempdir(), "gtverif-out-" + os.path.basename(REPO.rstrip("/"))))
COQ = os.path.join(VERIF, "coq")
THEORIES = os.path.join(COQ, "theories")
GT_MODULES = ["gconfig", "gencommon", "genum", "gerror", "gogenproto", "gsort", "gsync",
              "log", "rutils", "set"]
ALLOWED_AXIOMS = {}  # property id -> set of stdlib axiom names named in DESIGN.md §3 (none today)
FORBIDDEN = re.compile(
    r"\b(Admitted|admit|Axiom|Axioms|Parameter|Parameters|Conjecture|Conjectures|Abort)\b"
    r"|Unset\s+Guard|bypass_check|type-in-type|impredicative-set|Admit\s+Obligations")
OBLIG = re.compile(r"^\s*(Theorem|Lemma|Example|Corollary|Fact|Proposition|Remark)\s+(\w+)", re.M)


def go_env():
    e = dict(os.environ)
    e.update(GOWORK="off", GOFLAGS="-mod=mod", GOPROXY="off", GOSUMDB="off",
             GOTOOLCHAIN="local", CGO_ENABLED=e.get("CGO_ENABLED", "0"))
    return e


def sh(cmd, cwd=None, env=None, timeout=1200, inp=None):
    """run a command, return (rc, stdout+stderr)."""
    try:
        r = subprocess.run(cmd, cwd=cwd, env=env, timeout=timeout, input=inp,
                           stdout=subprocess.PIPE, stderr=subprocess.STDOUT, text=True,
                           errors="replace")
        return r.returncode, r.stdout
    except subprocess.TimeoutExpired as ex:
        out = ex.stdout or ""
        if isinstance(out, bytes):
            out = out.decode("utf8", "replace")
        return 124, out + "\n[timeout after %ss]" % timeout


class Ctx:
    def __init__(self, pid, tier, seed):
        self.pid, self.tier, self.seed = pid, tier, seed
        self.t0 = time.time()
        self.scratch = tempfile.mkdtemp(prefix="gtverif-%s-" % pid)
        self.gen = os.path.join(self.scratch, "gen")
        os.makedirs(self.gen)
        self.repo = None
        self.violations = []      # replay paths of unlisted violations
        self.known_hits = {}      # finding id -> count
        self.cov = {}             # coverage keys for the evidence file
        self.assumptions = []
        self.trusted = []
        self.nreplay = 0
        self.findings = load_findings()
        self.theorems = []
        self.checker_cmd = ""

    # ---------------- logging
    def log(self, *a):
        print("[%s %6.1fs]" % (self.pid, time.time() - self.t0), *a, flush=True)

    # ---------------- scratch copy of the repo
    def copy_repo(self):
        """copy the current working tree of every gtools module (no .git) to scratch/repo"""
        if self.repo:
            return self.repo
        dst = os.path.join(self.scratch, "repo")
        os.makedirs(dst)
        for m in os.listdir(REPO):
            if m == ".git":
                continue
            src = os.path.join(REPO, m)
            if os.path.isdir(src):
                shutil.copytree(src, os.path.join(dst, m), symlinks=True)
            else:
                shutil.copy2(src, os.path.join(dst, m))
        # the workspace file is not used (GOWORK=off); harness modules use replace directives
        self.repo = dst
        return dst

    def add_repo_file(self, rel, content):
        """verification-only file added to the scratch copy (never to /repo)"""
        p = os.path.join(self.copy_repo(), rel)
        os.makedirs(os.path.dirname(p), exist_ok=True)
        with open(p, "w") as f:
            f.write(content)
        return p

    def go_sum(self):
        lines = set()
        for root in [REPO] + [os.path.join(REPO, m) for m in os.listdir(REPO)]:
            for name in ("go.sum", "go.work.sum"):
                p = os.path.join(root, name)
                if os.path.isfile(p):
                    lines.update(l for l in open(p).read().splitlines() if l.strip())
        p = os.path.join(REPO, "gogenproto", "internal", "go.sum")
        if os.path.isfile(p):
            lines.update(l for l in open(p).read().splitlines() if l.strip())
        return "\n".join(sorted(lines)) + "\n"

    def harness_module(self, extra_requires=()):
        """copy /verif/harness to scratch/h as one Go module wired to the scratch repo copy"""
        h = os.path.join(self.scratch, "h")
        if os.path.isdir(h):
            return h
        repo = self.copy_repo()
        shutil.copytree(os.path.join(VERIF, "harness"), h)
        mods = [m for m in GT_MODULES if os.path.isfile(os.path.join(repo, m, "go.mod"))]
        gm = ["module gtverif", "", "go 1.23.0", "", "require ("]
        gm += ["\tgithub.com/drshriveer/gtools/%s v0.0.0" % m for m in mods]
        gm += ["\t%s" % r for r in extra_requires]
        gm += [")", ""]
        gm += ["replace github.com/drshriveer/gtools/%s => %s" % (m, os.path.join(repo, m))
               for m in mods]
        with open(os.path.join(h, "go.mod"), "w") as f:
            f.write("\n".join(gm) + "\n")
        with open(os.path.join(h, "go.sum"), "w") as f:
            f.write(self.go_sum())
        return h

    def build_harness(self, cmd, tags="verif", race=False):
        h = self.harness_module()
        out = os.path.join(self.scratch, "bin", cmd + ("-race" if race else ""))
        os.makedirs(os.path.dirname(out), exist_ok=True)
        env = go_env()
        args = ["go", "build", "-trimpath", "-tags", tags, "-o", out]
        if race:
            env["CGO_ENABLED"] = "1"
            args.insert(2, "-race")
        rc, log = sh(args + ["./cmd/" + cmd], cwd=h, env=env, timeout=900)
        if rc != 0:
            return None, log
        return out, log

    # ---------------- Coq
    def coq_build(self, targets):
        """full .vo build of the given theory files (relative to coq/), under a lock"""
        with open(os.path.join(COQ, ".lock"), "w") as lk:
            fcntl.flock(lk, fcntl.LOCK_EX)
            ensure_coqproject()
            rc, log = sh(["timeout", "1500", "make", "-j16"] + targets, cwd=COQ, timeout=1600)
        return rc == 0, log

    def cone(self, rel):
        """.v files (relative to theories/) in the Require cone of theories/<rel>"""
        seen, todo = [], [rel]
        while todo:
            r = todo.pop()
            if r in seen:
                continue
            p = os.path.join(THEORIES, r)
            if not os.path.isfile(p):
                continue
            seen.append(r)
            txt = strip_comments(open(p).read())
            for m in re.finditer(r"From\s+GT\s+Require\s+(.*?)\.(?=\s|$)", txt, re.S):
                for name in m.group(1).split():
                    if name not in ("Import", "Export"):
                        todo.append(name.replace(".", "/") + ".v")
            for m in re.finditer(r"Require\s+(?:Import|Export)\s+GT\.([\w.]+)\s*\.", txt):
                todo.append(m.group(1).replace(".", "/") + ".v")
        return sorted(seen)

    def proof_obligations(self, props_rel=None):
        """build Props/<pid>.vo, gate on forbidden vernacular, run Print Assumptions on every
        Theorem of the property file.  Returns (ok, detail)."""
        props_rel = props_rel or "Props/%s.v" % self.pid
        target = "theories/" + props_rel[:-2] + ".vo"
        self.checker_cmd = "make -C /verif/coq -j16 %s  (coq_makefile, full .vo build, Coq 8.16.1) + coqc Print Assumptions" % target
        extra = ["theories/" + t for t in getattr(self, "coq_targets", [])]
        ok, log = self.coq_build([target] + extra)
        cone = self.cone(props_rel)
        nob, bad = 0, []
        for r in cone:
            txt = strip_comments(open(os.path.join(THEORIES, r)).read())
            nob += len(OBLIG.findall(txt))
            for m in FORBIDDEN.finditer(txt):
                bad.append("%s: %s" % (r, m.group(0)))
        self.cov["obligations"] = nob
        self.cov["cone_files"] = cone
        if not ok:
            self.cov["discharged"] = 0
            return False, "coq build failed:\n" + log[-3000:]
        if bad:
            self.cov["discharged"] = 0
            return False, "forbidden vernacular in proof cone: " + "; ".join(bad)
        txt = strip_comments(open(os.path.join(THEORIES, props_rel)).read())
        thms = [n for k, n in OBLIG.findall(txt) if k == "Theorem"]
        self.theorems = thms
        mod = "GT." + props_rel[:-2].replace("/", ".")
        v = "Require Import %s.\n" % mod + "".join(
            "Print Assumptions %s.\n" % t for t in thms)
        rc, out = self.coq_eval("Assum_%s" % self.pid, v)
        if rc != 0:
            self.cov["discharged"] = 0
            return False, "Print Assumptions run failed:\n" + out[-2000:]
        closed = out.count("Closed under the global context")
        axioms = sorted(set(re.findall(r"^([\w.]+)\s*:", out, re.M)))
        allowed = set(ALLOWED_AXIOMS.get(self.pid, set())) | set(getattr(self, "allowed_axioms", []))
        extra = [a for a in axioms if a not in allowed]
        self.cov["property_theorems"] = thms
        self.cov["axioms"] = axioms
        if extra or closed + (1 if axioms else 0) < 1 or (closed != len(thms) and not axioms):
            self.cov["discharged"] = 0
            return False, "axioms outside the named trusted base: %s (closed=%d of %d)" % (
                extra, closed, len(thms))
        if self.tier == "thorough":
            okc, detail = self.coqchk(mod)
            if not okc:
                self.cov["discharged"] = 0
                return False, detail
        self.cov["discharged"] = nob
        return True, "%d obligations in %d files, %d property theorems, axioms: %s" % (
            nob, len(cone), len(thms), axioms or "none")

    def coqchk(self, mod):
        """thorough tier: independent re-check of the compiled cone with coqchk, axiom summary"""
        t = time.time()
        rc, out = sh(["timeout", "3000", "coqchk", "-silent", "-o", "-Q", THEORIES, "GT", mod],
                     cwd=COQ, timeout=3100)
        summary = out[out.find("CONTEXT SUMMARY"):] if "CONTEXT SUMMARY" in out else out[-1500:]
        self.cov["coqchk"] = {"cmd": "coqchk -silent -o -Q theories GT " + mod, "rc": rc,
                              "wall_s": round(time.time() - t, 1), "summary": summary.strip()}
        if rc != 0:
            return False, "coqchk failed:\n" + out[-2000:]
        m = re.search(r"\* Axioms:(.*?)\n\s*\n\* Constants", summary, re.S)
        ax = (m.group(1).strip() if m else "?")
        allowed = set(getattr(self, "allowed_axioms", []))
        names = [a.strip() for a in re.split(r"\n", ax) if a.strip() and a.strip() != "<none>"]
        extra = [a for a in names if not any(a.endswith(x) or x in a for x in allowed)]
        for key in ("type-in-type", "unsafe (co)fixpoints", "positivity is assumed"):
            mm = re.search(re.escape(key) + r":(.*?)(\n\s*\n|$)", summary, re.S)
            if mm and "<none>" not in mm.group(1):
                return False, "coqchk reports %s: %s" % (key, mm.group(1).strip())
        if extra:
            return False, "coqchk reports axioms outside the named trusted base: %s" % extra
        self.log("coqchk: ok (%.0fs), axioms: %s" % (time.time() - t, ax.replace("\n", " ")))
        return True, ""

    def ensure_gt_modules(self, vtext):
        """build (incrementally, under the lock) every GT module a generated file requires: tie files and case
        headers import modules that are outside the Require-cone of Props/Cxx.v, and after a fresh checkout
        nothing but that cone and META["coq_targets"] has been compiled"""
        txt = strip_comments(vtext)
        mods = []
        for m in re.finditer(r"From\s+GT\s+Require\s+(.*?)\.(?=\s|$)", txt, re.S):
            mods += [n for n in m.group(1).split() if n not in ("Import", "Export")]
        mods += re.findall(r"Require\s+(?:Import\s+|Export\s+)?GT\.([\w.]+)\s*\.", txt)
        targets = sorted({"theories/" + n.replace(".", "/") + ".vo" for n in mods
                          if os.path.isfile(os.path.join(THEORIES, n.replace(".", "/") + ".v"))})
        todo = [t for t in targets if t not in getattr(self, "_built_mods", set())]
        if not todo:
            return True, ""
        ok, log = self.coq_build(todo)
        if ok:
            self._built_mods = getattr(self, "_built_mods", set()) | set(todo)
        return ok, log

    def coq_eval(self, name, vtext, timeout=900, extra_q=()):
        ok, log = self.ensure_gt_modules(vtext)
        if not ok:
            return 2, "cannot build the GT modules this file requires:\n" + log[-2500:]
        p = os.path.join(self.gen, name + ".v")
        with open(p, "w") as f:
            f.write(vtext)
        cmd = ["timeout", str(timeout), "coqc", "-Q", THEORIES, "GT", "-Q", self.gen, "GTgen"]
        for d, n in extra_q:
            cmd += ["-Q", d, n]
        # large case literals need a deep parser stack: lift the soft stack limit where allowed
        wrapped = ["sh", "-c", "ulimit -s unlimited 2>/dev/null || ulimit -s 1048576 2>/dev/null; exec \"$@\"", "sh"] + cmd + [p]
        rc, out = sh(wrapped, cwd=self.gen, timeout=timeout + 30)
        return rc, out

    def judge_cases(self, header, case_type, judge, case_terms, shard=500, nontrivial=None,
                    timeout=900, tag="cases"):
        """Evaluate `bad_cases judge cases` in the kernel VM over the given Gallina case terms
        (one string per case), sharded and in parallel.  Returns (bad, nontrivial_count, err):
        bad = list of (global index, code)."""
        # make sure every GT module the case header imports is compiled (judge files are outside the
        # Require-cone of Props/Cxx.v); make is incremental, so this is cheap when up to date
        mods = []
        for m in re.finditer(r"From\s+GT\s+Require\s+(.*?)\.(?=\s|$)", strip_comments(header), re.S):
            mods += [n for n in m.group(1).split() if n not in ("Import", "Export")]
        mods += re.findall(r"Require\s+(?:Import|Export)\s+GT\.([\w.]+)\s*\.", header)
        targets = sorted({"theories/" + n.replace(".", "/") + ".vo" for n in mods})
        key = tuple(targets)
        if targets and key not in getattr(self, "_built", set()):
            ok, log = self.coq_build(targets)
            if not ok:
                return [], 0, "cannot build the judge modules %s:\n%s" % (targets, log[-2500:])
            self._built = getattr(self, "_built", set()) | {key}
        # shards of at most `shard` cases and at most ~3 MB of text each (Coq's parser recurses over
        # a list literal: very long literals overflow its stack)
        shards, starts, cur, size = [], [], [], 0
        for i, t in enumerate(case_terms):
            if cur and (len(cur) >= shard or size + len(t) > 3_000_000):
                shards.append(cur)
                cur, size = [], 0
            if not cur:
                starts.append(i)
            cur.append(t)
            size += len(t) + 2
        if cur:
            shards.append(cur)
        texts = []
        for k, sh_cases in enumerate(shards):
            v = [header, "Set Printing Width 1000000.", "Set Printing Depth 10000000.",
                 "Definition cases : list (%s) := [" % case_type,
                 ";\n".join(sh_cases), "]."]
            v.append("Definition RES_bad := Eval vm_compute in (bad_cases (%s) cases)." % judge)
            v.append("Open Scope nat_scope.")   # so that the nat pairs print without scope delimiters
            v.append("Print RES_bad.")
            if nontrivial:
                v.append("Definition RES_nt := Eval vm_compute in (count_if (%s) cases)." % nontrivial)
                v.append("Print RES_nt.")
            texts.append(("%s_%s_%d" % (tag, self.pid, k), "\n".join(v) + "\n"))
        bad, nt = [], 0
        with concurrent.futures.ThreadPoolExecutor(max_workers=16) as ex:
            futs = [ex.submit(self.coq_eval, n, t, timeout) for n, t in texts]
            for k, fu in enumerate(futs):
                rc, out = fu.result()
                tries = 0
                while rc != 0 and tries < 2 and "Error" not in out:
                    # no Coq error in the output: the process was killed (memory pressure / time limit on a
                    # loaded machine); evaluate the shard again, on its own
                    tries += 1
                    self.log("shard %d of %s: coqc ended with status %s without a Coq error, evaluating it again" % (
                        k, tag, rc))
                    rc, out = self.coq_eval(texts[k][0] + "_retry%d" % tries, texts[k][1], timeout * 2)
                if rc != 0:
                    return bad, nt, "coqc failed on shard %d:\n%s" % (k, out[-3000:])
                m = re.search(r"RES_bad\s*=\s*(\[.*?\])\s*:\s*list", out, re.S)
                if not m:
                    return bad, nt, "cannot parse shard %d output:\n%s" % (k, out[-2000:])
                body = re.sub(r"%\w+", "", m.group(1))      # tolerate `0%nat` style printing
                pairs = re.findall(r"\((\d+)\s*,\s*(\d+)\)", body)
                residue = re.sub(r"\(\d+\s*,\s*\d+\)", "", body)
                if re.sub(r"[\[\];\s]", "", residue):
                    return bad, nt, "unreadable result list in shard %d: %s" % (k, m.group(1)[:300])
                for a, b in pairs:
                    bad.append((starts[k] + int(a), int(b)))
                if nontrivial:
                    m = re.search(r"RES_nt\s*=\s*(\d+)", out)
                    if m:
                        nt += int(m.group(1))
        return bad, nt, None

    def translator_tie(self, xlate_cmd, args, gen_name, tie_name):
        """(T) tie: build and run a translator from harness/cmd/<xlate_cmd> on the scratch copy
        of the current tree, compile the regenerated <gen_name>.v and the committed tie file
        coq/ties/<tie_name>.v against it.  Returns (ok, detail)."""
        binp, log = self.build_harness(xlate_cmd)
        if not binp:
            return False, "translator build failed:\n" + log[-2000:]
        out = os.path.join(self.gen, gen_name + ".v")
        rc, o1 = sh([binp] + [str(a) for a in args] + ["-out", out], timeout=300)
        if rc != 0:
            return False, "translator failed:\n" + o1[-2000:]
        rc, o2 = self.coq_eval(gen_name, open(out).read())
        if rc != 0:
            return False, "regenerated %s.v does not compile (source left the translator's subset?):\n%s\n%s" % (
                gen_name, o1[-1000:], o2[-2000:])
        tie_src = open(os.path.join(COQ, "ties", tie_name + ".v")).read()
        bad = FORBIDDEN.search(strip_comments(tie_src))
        if bad:
            return False, "forbidden vernacular in tie file: " + bad.group(0)
        rc, o3 = self.coq_eval(tie_name, tie_src)
        if rc != 0:
            return False, "tie %s no longer checks against the regenerated model:\n%s" % (tie_name, o3[-2500:])
        if "Closed under the global context" not in o3:
            return False, "tie %s depends on axioms:\n%s" % (tie_name, o3[-1500:])
        n = len(OBLIG.findall(strip_comments(tie_src)))
        self.cov["obligations"] = self.cov.get("obligations", 0) + n
        self.cov["discharged"] = self.cov.get("discharged", 0) + n
        self.cov["translator_tie"] = {"translator": "harness/cmd/" + xlate_cmd, "regenerated": gen_name + ".v",
                                      "tie_file": "coq/ties/%s.v" % tie_name, "lemmas": n}
        return True, "%d tie lemmas" % n

    # ---------------- verdicts
    def report(self, replay, features=None, failing_input=True):
        """record a violation: matched against the open known findings by features; otherwise
        a VIOLATION line is printed.  Returns 'known' or 'violation'."""
        features = features or {}
        for f in self.findings:
            if f.get("property") != self.pid or f.get("status") != "open":
                continue
            mt = f.get("match", {})
            if mt and all(features.get(k) == v for k, v in mt.items()):
                fid = f.get("id", json.dumps(mt, sort_keys=True))
                if fid not in self.known_hits:
                    print("KNOWN-FINDING: property=%s %s" % (self.pid, f.get("what", fid)), flush=True)
                self.known_hits[fid] = self.known_hits.get(fid, 0) + 1
                return "known"
        self.nreplay += 1
        if self.nreplay > 5:
            self.violations.append("(not written)")
            return "violation"
        d = os.path.join(OUT, "replays")
        os.makedirs(d, exist_ok=True)
        path = os.path.join(d, "%s-%s-seed%d-%d.json" % (self.pid, self.tier, self.seed, self.nreplay))
        replay = dict(replay)
        replay.setdefault("property", self.pid)
        replay.setdefault("seed", self.seed)
        replay.setdefault("tier", self.tier)
        replay["features"] = features
        replay["failing_input_found"] = bool(failing_input)
        with open(path, "w") as f:
            json.dump(replay, f, indent=1, sort_keys=True, default=str)
        print("VIOLATION property=%s replay=%s%s" % (
            self.pid, path, "" if failing_input else " no-failing-input-found"), flush=True)
        self.violations.append(path)
        return "violation"

    def finish(self, level="proof"):
        ev = {
            "property_id": self.pid, "tier": self.tier, "seed": self.seed, "level": level,
            "coverage": dict(self.cov), "assumptions": self.assumptions,
            "wall_s": round(time.time() - self.t0, 2), "violations": len(self.violations),
        }
        ev["coverage"].setdefault("checker_cmd", self.checker_cmd or "coqc")
        ev["coverage"].setdefault("trusted_base", self.trusted)
        ev["coverage"]["known_findings_hit"] = self.known_hits
        d = os.path.join(OUT, "evidence")
        os.makedirs(d, exist_ok=True)
        with open(os.path.join(d, self.pid + ".json"), "w") as f:
            json.dump(ev, f, indent=1, sort_keys=True, default=str)
        shutil.rmtree(self.scratch, ignore_errors=True)
        if len(self.violations) > 5:
            print("(%d further violating cases not written out)" % (len(self.violations) - 5))
        self.log("done: %d violation(s), %d known finding hit(s), %.1fs" % (
            len(self.violations), sum(self.known_hits.values()), time.time() - self.t0))
        return 1 if self.violations else 0

    def obligations_or_violation(self, props_rel=None):
        """standard first step: proof obligations.  A broken obligation is itself reported
        (no failing input known at that point; the correspondence run that follows may add one)."""
        ok, detail = self.proof_obligations(props_rel)
        self.log("proof obligations:", "OK" if ok else "BROKEN", "-", detail.splitlines()[0])
        if not ok:
            self.report({"unchecked": "theorem file %s" % (props_rel or "Props/%s.v" % self.pid),
                         "detail": detail}, {"kind": "proof_obligation"}, failing_input=False)
        return ok


def strip_comments(txt):
    out, depth, i, n = [], 0, 0, len(txt)
    while i < n:
        if txt.startswith("(*", i):
            depth += 1
            i += 2
        elif txt.startswith("*)", i) and depth:
            depth -= 1
            i += 2
        else:
            if not depth:
                out.append(txt[i])
            i += 1
    return "".join(out)


def ensure_coqproject():
    files = []
    for root, _, names in os.walk(THEORIES):
        for n in names:
            if n.endswith(".v") and not n.startswith("Tmp_"):
                files.append(os.path.relpath(os.path.join(root, n), COQ))
    body = "-Q theories GT\n" + "\n".join(sorted(files)) + "\n"
    p = os.path.join(COQ, "_CoqProject")
    old = open(p).read() if os.path.isfile(p) else ""
    if old != body or not os.path.isfile(os.path.join(COQ, "Makefile")):
        with open(p, "w") as f:
            f.write(body)
        sh(["coq_makefile", "-f", "_CoqProject", "-o", "Makefile"], cwd=COQ)


def load_findings():
    out = []
    p = os.path.join(VERIF, "known_findings.json")
    if os.path.isfile(p):
        doc = json.load(open(p))
        out += doc.get("findings", [])
        if doc.get("merged"):
            return out          # the single merged file already holds every group's entries
    d = os.path.join(VERIF, "known_findings.d")
    if os.path.isdir(d):
        for n in sorted(os.listdir(d)):
            if n.endswith(".json"):
                out += json.load(open(os.path.join(d, n))).get("findings", [])
    return out


# ---------------- Gallina literal helpers (python side)
def g_list(items):
    return "[" + "; ".join(items) + "]"


def g_N(n):
    return "%d%%N" % n


def g_Z(n):
    return "(%d)%%Z" % n


def g_bool(b):
    return "true" if b else "false"


def g_str(s):
    return '"' + s.replace('"', '""') + '"%string'


def distinct_count(objs):
    return len({hashlib.sha1(json.dumps(o, sort_keys=True).encode()).hexdigest() for o in objs})


def harness_cases(ctx, binpath, runs, timeout=900):
    """run the harness once per (tag, [args]) and collect the index-aligned Gallina terms and
    JSON cases it wrote.  Returns (terms, jsons, err)."""
    terms, jsons = [], []
    for tag, args in runs:
        prefix = os.path.join(ctx.scratch, "cases_%s" % tag)
        rc, out = sh([binpath, "-seed", str(ctx.seed), "-out", prefix] + [str(a) for a in args],
                     timeout=timeout)
        if rc != 0:
            return terms, jsons, "harness %s failed (rc %d):\n%s" % (tag, rc, out[-3000:])
        t = open(prefix + ".cases").read().splitlines()
        j = [json.loads(l) for l in open(prefix + ".jsonl").read().splitlines()]
        if len(t) != len(j):
            return terms, jsons, "harness %s wrote %d terms but %d json cases" % (tag, len(t), len(j))
        terms += t
        jsons += j
    return terms, jsons, None
