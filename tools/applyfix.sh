#!/bin/sh
# applyfix.sh <name>   — apply /verif/fixes/<name>.patch to /repo as one commit with message <name>.msg
n="$1"
cd /repo || exit 2
git apply --3way "/verif/fixes/$n.patch" || { echo "APPLY FAILED $n"; exit 1; }
git add -A && git commit -q -F "/verif/fixes/$n.msg" && git log --oneline | head -1
