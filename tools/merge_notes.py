#!/usr/bin/env python3
"""Rebuild §12 of DESIGN.md from design_notes/Cxx.md (one subsection per property, in id order)."""
import os, re
V = os.path.dirname(os.path.dirname(os.path.abspath(__file__)))
p = os.path.join(V, "DESIGN.md")
s = open(p).read()
head = s[:s.index("## 12. Per-property build notes")]
out = [head, "## 12. Per-property build notes\n\n",
       "(one subsection per property, written by whoever built the check while building it; the same text lives in\n"
       "`design_notes/Cxx.md`. Heading levels are shifted so that each property is a `###` subsection.)\n\n"]
for n in sorted(os.listdir(os.path.join(V, "design_notes"))):
    if not re.match(r"C\d+\.md$", n):
        continue
    t = open(os.path.join(V, "design_notes", n)).read().strip()
    lines = t.split("\n")
    res, infence = [], False
    for i, l in enumerate(lines):
        if l.startswith("```"):
            infence = not infence
        if not infence and l.startswith("#"):
            m = re.match(r"(#+)(.*)", l)
            lvl = len(m.group(1))
            if i == 0 or lvl == 1:
                l = "###" + m.group(2) if lvl <= 3 else l
            else:
                l = "#" * min(6, max(4, lvl + 2)) + m.group(2)
        res.append(l)
    out.append("\n".join(res) + "\n\n")
open(p, "w").write("".join(out))
print("merged", len(out) - 3, "notes")
