#!/bin/sh
# take_seed.sh Cxx [round] — copy /tmp/seed6-out/Cxx/{A,B} to seeded/Cxx-61, Cxx-62 (round 6) and confirm each
rd="${2:-6}"; p="$1"; cd "$(dirname "$0")/.." || exit 2
i=1
for ab in A B; do
  src=/tmp/seed${rd}-out/$p/$ab; dst=seeded/$p-${rd}$i; i=$((i+1))
  [ -f "$src/patch.diff" ] || { echo "$src: no patch"; continue; }
  rm -rf "$dst"; mkdir -p "$dst"; cp -r "$src"/. "$dst"/
  python3 - "$dst/meta.json" "$p" "$rd" <<'PY'
import json,sys
f,p=sys.argv[1],sys.argv[2]
try: m=json.load(open(f))
except Exception as e: m={"summary":"(meta.json unreadable: %s)"%e}
m["property"]=p; m["round"]=int(sys.argv[3])
json.dump(m,open(f,"w"),indent=1)
PY
done
python3 tools/confirm_seed.py -j 2 seeded/$p-${rd}1 seeded/$p-${rd}2
