#!/usr/bin/env python3
"""Rebuild §3a of DESIGN.md (trusted base as built, per property) from the evidence files the checks wrote on /repo."""
import json, os, glob
V = os.path.dirname(os.path.dirname(os.path.abspath(__file__)))
esc = lambda s: str(s).replace("|", "\\|").replace("\n", " ")
out = ["## 3a. Trusted base as built (generated from `evidence/*.json`, i.e. from what each check reported on its last run on `/repo`)\n",
       "Global: Coq 8.16.1 kernel and VM (`vm_compute`), no `native_compute`, **no extraction** (no `Extraction` command, no `Extract`",
       "directive, no OCaml code anywhere: models are evaluated inside Coq), no axioms — every `Print Assumptions` of every property",
       "theorem and of every tie lemma prints `Closed under the global context`, re-checked on every run; the thorough tier adds",
       "`coqchk -o` on the property's cone. No `Admitted`/`admit`/`Axiom`/`Parameter`/`Conjecture`/section-less `Variable`/",
       "`Hypothesis`/guard or universe switches anywhere (grep gate over the comment-stripped cone on every run). No line of Go is",
       "verified directly: every theorem is about a Gallina model, and the model reaches the code through the ties listed per",
       "property below — (T) translators written for this project (Go programs under `harness/cmd/xlate_*`, `harness/internal/setxl`,",
       "using only `go/parser`, `go/ast`, `text/template/parse`, `regexp/syntax`), whose output is *proved* equal to / simulated by the",
       "model on every run, and (C) correspondence runs of the real code judged inside Coq. The translators themselves (that they print",
       "what they read), the Go harnesses (generators, canonicalisation, schedulers, instrumenter) and the Go toolchain are trusted;",
       "each (T) tie is accompanied by (C), which would expose a translator that misreads the source.\n",
       "| property | theorems / obligations | axioms | translator ties checked on the last run | trusted (as reported by the check) | assumptions / domain restrictions |",
       "|---|---|---|---|---|---|"]
for f in sorted(glob.glob(os.path.join(V, "evidence", "C*.json"))):
    e = json.load(open(f)); c = e["coverage"]
    ties = []
    for k in ("translator_tie", "translator_ties", "tie_T", "ties"):
        v = c.get(k)
        if not v:
            continue
        items = v if isinstance(v, list) else [v]
        for t in items:
            if isinstance(t, dict) and not t.get("translator"):
                ties.append(json.dumps(t, sort_keys=True)[:260])
            elif isinstance(t, dict):
                ties.append("%s → %s (%s lemmas)" % (t.get("translator", "?"), t.get("tie_file", t.get("regenerated", "?")), t.get("lemmas", "?")))
            else:
                ties.append(str(t)[:160])
    tb = c.get("trusted_base") or []
    tb = [t for t in tb if not t.startswith("Coq 8.16.1 kernel")]
    out.append("| %s | %d / %s (discharged %s) | %s | %s | %s | %s |" % (
        e["property_id"], len(c.get("property_theorems", [])), c.get("obligations"), c.get("discharged"),
        ", ".join(c.get("axioms") or []) or "none", esc("; ".join(ties)) or "— (correspondence only)",
        esc(" • ".join(tb))[:1400], esc(" • ".join(e.get("assumptions") or []))[:1400]))
txt = "\n".join(out) + "\n\n---------------------------------------------------------------------------------------\n\n"
p = os.path.join(V, "DESIGN.md")
s = open(p).read()
if "## 3a. Trusted base as built" in s:
    a = s.index("## 3a. Trusted base as built"); b = s.index("## 4. Per-property design")
    s = s[:a] + txt + s[b:]
else:
    b = s.index("## 4. Per-property design")
    s = s[:b] + txt + s[b:]
open(p, "w").write(s)
print("trusted base table:", len(out) - 14, "rows")
