#!/usr/bin/env python3
"""confirm_seed.py [-j N] <seed-dir> ...

Coordinator-side confirmation of a seeded change (patch.diff + demo/ + meta.json), in a scratch worktree
of /repo HEAD (never /repo itself):
  1. patch applies to HEAD;  2. every module builds (go build ./... && go vet-less test compile);
  3. the repository's pinned suite (tools/baseline.py: the 397 stable tests) passes with the change;
  4. demo/run.sh fails (non-zero) with the change;  5. demo/run.sh passes on the clean worktree.
The demo is called as `WORKTREE=<wt> sh run.sh <wt>` from its own directory (both conventions in use).
Writes the outcome into meta.json under "confirmed" and prints one line per seed."""
import argparse, concurrent.futures as cf, json, os, subprocess, sys, tempfile, time

V = os.path.dirname(os.path.dirname(os.path.abspath(__file__)))
ENV = dict(os.environ, GOPROXY="off", GOSUMDB="off", GOTOOLCHAIN="local")
ENV.pop("GOFLAGS", None)
MODS = ["gconfig", "gencommon", "genum", "gerror", "gogenproto", "gogenproto/internal", "gsort", "gsync", "log", "rutils", "set"]


def run(cmd, cwd=None, env=None, timeout=3600):
    try:
        p = subprocess.run(cmd, cwd=cwd, env=env or ENV, stdout=subprocess.PIPE, stderr=subprocess.STDOUT, text=True,
                           timeout=timeout, errors="replace")
        return p.returncode, p.stdout
    except subprocess.TimeoutExpired as e:
        return 124, "timeout"


def demo(d, wt, scratch):
    env = dict(ENV, WORKTREE=wt, SCRATCH_ROOT=scratch, TMPDIR=scratch)
    return run(["bash", "run.sh", wt], cwd=os.path.join(d, "demo"), env=env, timeout=2400)


def confirm(d):
    d = os.path.abspath(d)
    name = os.path.basename(d)
    out = {"repo_head": subprocess.run(["git", "-C", "/repo", "rev-parse", "--short", "HEAD"], capture_output=True, text=True).stdout.strip(),
           "when": time.strftime("%Y-%m-%d %H:%M UTC", time.gmtime())}
    wt = tempfile.mkdtemp(prefix="cs-wt-", dir="/tmp"); os.rmdir(wt)
    scratch = tempfile.mkdtemp(prefix="cs-scr-", dir="/tmp")
    rc, o = run(["git", "-C", "/repo", "worktree", "add", "-q", "--detach", wt, "HEAD"])
    try:
        rc, o = run(["git", "-C", wt, "apply", os.path.join(d, "patch.diff")])
        out["patch_applies"] = rc == 0
        if rc != 0:
            out["error"] = o[-400:]
            return name, out
        ok = True
        for m in MODS:
            rc, o = run(["sh", "-c", "go build ./... && go test -vet=off -count=1 -run '^$' ./... >/dev/null"], cwd=os.path.join(wt, m))
            if rc != 0:
                ok = False
                out["build_error"] = m + ": " + o[-600:]
                break
        out["builds"] = ok
        rc, o = run([sys.executable, os.path.join(V, "tools", "baseline.py"), wt], timeout=3000)
        out["suite_with_change"] = o.strip().splitlines()[0] if o.strip() else ""
        out["suite_passes_with_change"] = rc == 0
        if rc != 0:
            out["suite_detail"] = o[-800:]
        run(["git", "-C", wt, "checkout", "--", "."])           # baseline may rewrite a generated file
        run(["git", "-C", wt, "clean", "-fdq"])
        run(["git", "-C", wt, "apply", os.path.join(d, "patch.diff")])
        rc1, o1 = demo(d, wt, scratch)
        out["demo_with_change_exit"] = rc1
        out["demo_with_change_tail"] = o1.strip().splitlines()[-3:]
        run(["git", "-C", wt, "checkout", "--", "."]); run(["git", "-C", wt, "clean", "-fdq"])
        rc0, o0 = demo(d, wt, scratch)
        out["demo_clean_exit"] = rc0
        if rc0 != 0:
            out["demo_clean_tail"] = o0.strip().splitlines()[-6:]
        out["confirmed"] = bool(out["patch_applies"] and ok and out["suite_passes_with_change"] and rc1 != 0 and rc0 == 0)
    finally:
        run(["git", "-C", "/repo", "worktree", "remove", "--force", wt])
        run(["rm", "-rf", wt, scratch])
    return name, out


if __name__ == "__main__":
    ap = argparse.ArgumentParser()
    ap.add_argument("-j", type=int, default=3)
    ap.add_argument("dirs", nargs="+")
    a = ap.parse_args()
    rcall = 0
    with cf.ThreadPoolExecutor(a.j) as ex:
        futs = {ex.submit(confirm, d): d for d in a.dirs}
        for f in cf.as_completed(futs):
            d = futs[f]
            name, out = f.result()
            mp = os.path.join(d, "meta.json")
            m = json.load(open(mp))
            m["confirmed"] = out
            json.dump(m, open(mp, "w"), indent=1)
            print(name, "CONFIRMED" if out.get("confirmed") else "NOT CONFIRMED", json.dumps({k: v for k, v in out.items() if k not in ("when",)})[:600], flush=True)
            if not out.get("confirmed"):
                rcall = 1
    sys.exit(rcall)
