#!/bin/sh
# runall_par.sh [tier] [parallelism] — run every claimed check against /repo, N at a time; one summary line each
tier="${1:-thorough}"; par="${2:-4}"
cd "$(dirname "$0")/.." || exit 2
mkdir -p /tmp/runall_par
cat tools/claimed.txt | xargs -P "$par" -I{} sh -c 's=$(date +%s); ./check {} --tier '"$tier"' > /tmp/runall_par/{}.log 2>&1; rc=$?; e=$(( $(date +%s) - s )); v=$(grep -c "^VIOLATION" /tmp/runall_par/{}.log); k=$(grep -c "^KNOWN-FINDING" /tmp/runall_par/{}.log); echo "{} rc=$rc ${e}s violations=$v known=$k :: $(grep -v conda /tmp/runall_par/{}.log | tail -1)"'
